----------------------------- MODULE MathArgsMC -----------------------------
(***************************************************************************)
(* L2 — `convert_args_in_math` (func_call.rs): the arguments of a math     *)
(* call are a flow (FlowLayout.tla) in which every comma is tight before / *)
(* spaced after, a blank with a line feed is a hard line break, blanks at  *)
(* both ends are stripped, and the whole is wrapped in parentheses — with  *)
(* soft breaks inside them when the source arguments span lines, with a    *)
(* hard break before `)` when they end in a line comment.  Composed with   *)
(* the equation call site of ListLayout.tla: `$ vec(<args>) $`.            *)
(*                                                                         *)
(* Design check + behaviour generator over all argument child sequences    *)
(* arg (T* comma T* arg)* with blanks, line feeds, block and line comments *)
(* (1-D arguments; rows with `;` are implicit arrays and go through        *)
(* ListLayout's tight instance, not modelled here).                        *)
(***************************************************************************)
EXTENDS FlowLayout, ListLayout, Json
CONSTANTS MaxLen, MaxArgs, MaxCmt, MaxW, Unit, GenOn
VARIABLES seq, phase, needNl, done
vars == <<seq, phase, needNl, done>>

ArgTxt(k) == CASE k = 1 -> "a" [] k = 2 -> "b" [] OTHER -> "c"
BcTxt(k) == CASE k = 1 -> "/* c1 */" [] OTHER -> "/* c2 */"
LcTxt(k) == CASE k = 1 -> "// c1" [] OTHER -> "// c2"
Count(kinds) == Cardinality({i \in 1..Len(seq) : seq[i].e \in kinds})
LastWs == seq # <<>> /\ seq[Len(seq)].e \in {"sp", "nl"}

Init == seq = <<>> /\ phase = "start" /\ needNl = FALSE /\ done = FALSE
Emit(ev, ph, nn) == seq' = Append(seq, ev) /\ phase' = ph /\ needNl' = nn /\ done' = FALSE
Room == ~done /\ Len(seq) < MaxLen
AArg == Room /\ ~needNl /\ phase \in {"start", "comma"} /\ Count({"pat"}) < MaxArgs
        /\ Emit([e |-> "pat", txt |-> ArgTxt(Count({"pat"}) + 1)], "arg", FALSE)          \* an Arg child: FlowItem::spaced
AComma == Room /\ ~needNl /\ phase = "arg" /\ Emit([e |-> "comma", txt |-> ","], "comma", FALSE)
ASp == Room /\ ~needNl /\ ~LastWs /\ Emit([e |-> "sp"], phase, FALSE)
ANl == Room /\ ~LastWs /\ Emit([e |-> "nl", n |-> 1], phase, FALSE)
ABc == Room /\ ~needNl /\ Count({"bc", "lc"}) < MaxCmt /\ Emit([e |-> "bc", txt |-> BcTxt(Count({"bc", "lc"}) + 1)], phase, FALSE)
ALc == Room /\ ~needNl /\ Count({"bc", "lc"}) < MaxCmt /\ Emit([e |-> "lc", txt |-> LcTxt(Count({"bc", "lc"}) + 1)], phase, TRUE)
AFinish == ~done /\ ~needNl /\ phase = "arg" /\ done' = TRUE /\ UNCHANGED <<seq, phase, needNl>>
Next == AArg \/ AComma \/ ASp \/ ANl \/ ABc \/ ALc \/ AFinish
Spec == Init /\ [][Next]_vars

(* strip the blanks at both ends (position / rposition over LeftParen | Space) *)
Stripped == LET lo == IF seq # <<>> /\ seq[1].e \in {"sp", "nl"} THEN 2 ELSE 1
                hi == IF seq # <<>> /\ seq[Len(seq)].e \in {"sp", "nl"} THEN Len(seq) - 1 ELSE Len(seq)
            IN SubSeq(seq, lo, hi)
(* the producer of convert_args_in_math on top of the flow driver *)
ArgStep(f, ev) ==
  LET atLC == f.peekLC
      g == [f EXCEPT !.peekLC = FALSE] IN
  CASE ev.e = "comma" -> PushDoc(g, T(","), FALSE, TRUE)                        \* FlowItem::tight_spaced
    [] ev.e = "nl" /\ ~atLC -> PushDoc(g, HL, FALSE, FALSE)                     \* FlowItem::tight(hardline)
    [] OTHER -> FlowStep(f, ev)                                                 \* comments, deferred break, blanks, args
RECURSIVE ArgRun(_, _, _)
ArgRun(f, sq, i) == IF i > Len(sq) THEN f ELSE ArgRun(ArgStep(f, sq[i]), sq, i + 1)
Inner == ArgRun(F0, Stripped, 1).doc
EndsLC == Stripped # <<>> /\ Stripped[Len(Stripped)].e = "lc"
Multi == \E i \in 1..Len(seq) : seq[i].e = "nl"                                 \* is_multiline(args)
ArgsDoc == IF EndsLC THEN Enclose(Group(Cat(Nest(Unit, Cat(LINE_, Inner)), HL)), T("("), T(")"))
           ELSE IF Multi THEN Enclose(Group(Cat(Nest(Unit, Cat(LINE_, Inner)), LINE_)), T("("), T(")"))
           ELSE Enclose(Inner, T("("), T(")"))
EqSeq == << [e |-> "sp"], [e |-> "item", txt |-> "", doc |-> Cat(T("vec"), ArgsDoc)], [e |-> "sp"] >>
EqCfg == [CfgOf("eq", EqSeq, Unit) EXCEPT !.fold = IF Multi THEN "never" ELSE "fit"]      \* is_multiline(equation)
Whole == Cat(ListDoc(EqCfg, EqSeq), HL)
Out(w) == Format(Whole, w)

StartsAt(s, t, i) == i + Len(t) - 1 <= Len(s) /\ SubSeq(s, i, i + Len(t) - 1) = t
Occurs(s, t) == {i \in 1..Len(s) : StartsAt(s, t, i)}
EndsWithS(s, t) == Len(t) <= Len(s) /\ SubSeq(s, Len(s) - Len(t) + 1, Len(s)) = t
RECURSIVE LTrimPosS(_, _)
LTrimPosS(s, i) == IF i <= Len(s) /\ SubSeq(s, i, i) = " " THEN LTrimPosS(s, i + 1) ELSE i
RECURSIVE Squeeze(_, _, _)
Squeeze(s, i, acc) == IF i > Len(s) THEN acc
                      ELSE LET ch == SubSeq(s, i, i) IN Squeeze(s, i + 1, IF ch \in {" ", "$"} THEN acc ELSE acc \o ch)
RECURSIVE ConcatSq(_, _, _)
ConcatSq(ls, i, acc) == IF i > Len(ls) THEN acc ELSE ConcatSq(ls, i + 1, acc \o Squeeze(ls[i], 1, ""))
Expected == LET toks == SelectSeq(seq, LAMBDA ev : ev.e \notin {"sp", "nl"})
                RECURSIVE cat(_, _) cat(i, acc) == IF i > Len(toks) THEN acc ELSE cat(i + 1, acc \o Squeeze(toks[i].txt, 1, ""))
            IN "vec(" \o cat(1, "") \o ")"
LineComments == {seq[i].txt : i \in {j \in 1..Len(seq) : seq[j].e = "lc"}}
InvTermination  == done => \A w \in 0..MaxW : \A i \in 1..Len(Out(w)) : \A t \in LineComments :
                              Occurs(Out(w)[i], t) # {} => EndsWithS(Out(w)[i], t)
(* arguments, separators and comments come out once, in order, and no separator is added or lost (C01 in math) *)
InvConservation == done => \A w \in 0..MaxW : ConcatSq(Out(w), 1, "") = Expected
InvHygiene      == done => \A w \in 0..MaxW : \A i \in 1..Len(Out(w)) : Out(w)[i] = "" \/ ~EndsWithS(Out(w)[i], " ")
(* C09 at model level: a line feed between two arguments of the source is a line feed in every rendering: the
   number of lines is at least the number of source line feeds between the first and the last token *)
InnerNl == Cardinality({i \in 1..Len(Stripped) : Stripped[i].e = "nl"})
InvLineFeedsKept == done => \A w \in 0..MaxW : Len(Out(w)) >= InnerNl + 1
Gen == (done /\ GenOn) => PrintT(<<"GEN", ToJson([inst |-> "mathargs", unit |-> Unit, seq |-> seq,
                                                 pred |-> [w \in 0..MaxW |-> Out(w)]])>>)
=============================================================================
