-------------------------------- MODULE ItemMC --------------------------------
(***************************************************************************)
(* L2 — list items in markup (crates/typstyle-core/src/pretty/markup.rs    *)
(* `convert_list_item_like`): the marker, a blank, the body laid out as    *)
(* markup of scope Item (MarkupLayout), everything nested by ONE indent    *)
(* unit from the indentation in effect — not from the marker's column.     *)
(*                                                                         *)
(* A document is one list item whose body is a first element on the        *)
(* marker's line and further elements on lines of their own; an element is *)
(* a word or again an item (depth <= MaxDepth, <= MaxElems elements in     *)
(* all).  `first` being an item is the shape `- - a`.                      *)
(*                                                                         *)
(* Typst derives the nesting of items from columns: a line belongs to the  *)
(* innermost item whose marker column is smaller than the line's           *)
(* indentation.  `Parse` is that rule on the rendered lines.               *)
(*                                                                         *)
(*   InvNestingPlain   C01 / C12: when no item starts on its parent's      *)
(*                     marker line, the rendered lines parse back to the   *)
(*                     same tree, whatever the unit;                       *)
(*   InvNestingInline  the same for `- - a` shapes — holds for unit 2 only *)
(*                     (recorded defect G04: with unit 4 the continuation  *)
(*                     of the OUTER item lands inside the inner one; with  *)
(*                     unit 1 the continuation of the inner item leaves    *)
(*                     it).  bin/selftest expects the violation.           *)
(***************************************************************************)
EXTENDS MarkupLayout, FlowLayout, FiniteSets, Json
CONSTANTS MaxDepth, MaxElems, Unit, GenOn

(* trees as nested records: [first, rest]; an element is [w |-> TRUE, txt] or [w |-> FALSE, it |-> tree] *)
W(t) == [w |-> TRUE, txt |-> t]
I(t) == [w |-> FALSE, it |-> t]
Words == <<"a", "b", "c", "d", "e">>

(* all trees of depth <= d with at most n elements (an element = a word or an item), words left abstract ("?") *)
RECURSIVE Trees(_, _)
Trees(d, n) ==
  IF n < 1 THEN {}
  ELSE LET Elem(k) == {W("?")} \cup (IF d > 1 THEN {I(t) : t \in Trees(d - 1, k)} ELSE {})
           \* first element, then 0..2 further elements
       IN UNION { {[first |-> f, rest |-> <<>>] : f \in Elem(n)},
                  {[first |-> f, rest |-> <<r1>>] : f \in Elem(n - 1), r1 \in Elem(n - 1)},
                  {[first |-> f, rest |-> <<r1, r2>>] : f \in Elem(n - 2), r1 \in Elem(n - 2), r2 \in Elem(n - 2)} }
RECURSIVE Count(_)
CountE(e) == IF e.w THEN 1 ELSE Count(e.it)
Count(t) == CountE(t.first) + (IF Len(t.rest) >= 1 THEN CountE(t.rest[1]) ELSE 0) + (IF Len(t.rest) >= 2 THEN CountE(t.rest[2]) ELSE 0)

VARIABLE tree
Init == tree \in {t \in Trees(MaxDepth, MaxElems) : Count(t) <= MaxElems}
Next == UNCHANGED tree
Spec == Init /\ [][Next]_tree

(***************************************************************************)
(* Naming the words in reading order, and the source text                  *)
(***************************************************************************)
RECURSIVE Label(_, _)         \* returns [t |-> labelled tree, k |-> next word index]
LabelE(e, k) == IF e.w THEN [e |-> W(Words[k]), k |-> k + 1] ELSE LET r == Label(e.it, k) IN [e |-> I(r.t), k |-> r.k]
Label(t, k) ==
  LET f == LabelE(t.first, k)
      r1 == IF Len(t.rest) >= 1 THEN LabelE(t.rest[1], f.k) ELSE [e |-> W(""), k |-> f.k]
      r2 == IF Len(t.rest) >= 2 THEN LabelE(t.rest[2], r1.k) ELSE [e |-> W(""), k |-> r1.k]
  IN [t |-> [first |-> f.e, rest |-> IF Len(t.rest) = 0 THEN <<>> ELSE IF Len(t.rest) = 1 THEN <<r1.e>> ELSE <<r1.e, r2.e>>], k |-> r2.k]
Tree == Label(tree, 1).t

(* source: marker at column c; the elements after the first on lines indented c + 2 *)
RECURSIVE Src(_, _)
SrcE(e, c) == IF e.w THEN e.txt ELSE Src(e.it, c)
Src(t, c) == "- " \o SrcE(t.first, c + 2)
             \o (IF Len(t.rest) >= 1 THEN "\n" \o Spaces(c + 2) \o SrcE(t.rest[1], c + 2) ELSE "")
             \o (IF Len(t.rest) >= 2 THEN "\n" \o Spaces(c + 2) \o SrcE(t.rest[2], c + 2) ELSE "")
Source == Src(Tree, 0) \o "\n"

(***************************************************************************)
(* convert_list_item_like                                                  *)
(***************************************************************************)
RECURSIVE ItemDoc(_)
ElemEv(e) == IF e.w THEN [e |-> "txt", txt |-> e.txt] ELSE [e |-> "item", txt |-> "", doc |-> ItemDoc(e.it)]
BodySeq(t) == <<ElemEv(t.first)>>
              \o (IF Len(t.rest) >= 1 THEN << [e |-> "nl", n |-> 1], ElemEv(t.rest[1]) >> ELSE <<>>)
              \o (IF Len(t.rest) >= 2 THEN << [e |-> "nl", n |-> 1], ElemEv(t.rest[2]) >> ELSE <<>>)
(* the flow: marker (spaced), the blank after it (nothing), the body (spaced); then nest by one unit *)
ItemDoc(t) == Nest(Unit, PushDoc(PushDoc(F0, T("-"), TRUE, TRUE), MarkupDoc(BodySeq(t), "Item", FALSE), TRUE, TRUE).doc)
Whole == Cat(MarkupDoc(<< [e |-> "item", txt |-> "", doc |-> ItemDoc(Tree)] >>, "Document", FALSE), HL)
Out(w) == Format(Whole, w)

(***************************************************************************)
(* Typst's rule, on the rendered lines                                     *)
(***************************************************************************)
RECURSIVE LTrimPosS(_, _)
LTrimPosS(s, i) == IF i <= Len(s) /\ SubSeq(s, i, i) = " " THEN LTrimPosS(s, i + 1) ELSE i
Ind(s) == LTrimPosS(s, 1) - 1
(* the tokens of a line after its indentation: markers `- ` and then one word; col = column of the token *)
RECURSIVE Toks(_, _, _)
Toks(s, p, acc) == IF p > Len(s) THEN acc
                   ELSE IF SubSeq(s, p, p) = "-" THEN Toks(s, p + 2, Append(acc, [m |-> TRUE, col |-> p - 1, txt |-> "-"]))
                   ELSE Append(acc, [m |-> FALSE, col |-> p - 1, txt |-> SubSeq(s, p, Len(s))])
LineToks(s) == Toks(s, LTrimPosS(s, 1), <<>>)
(* ParseItem(ls, i, j): the item whose marker is token j of line i; returns [t, i] with i the next unconsumed line *)
RECURSIVE ParseItem(_, _, _)
RECURSIVE ParseRest(_, _, _, _)
ParseElem(ls, i, j) == LET tk == LineToks(ls[i]) IN
                       IF tk[j].m THEN LET r == ParseItem(ls, i, j) IN [e |-> I(r.t), i |-> r.i]
                       ELSE [e |-> W(tk[j].txt), i |-> i + 1]
(* further elements of the item with marker column c: lines indented more than c *)
ParseRest(ls, i, c, acc) ==
  IF i > Len(ls) \/ ls[i] = "" \/ Ind(ls[i]) <= c THEN [rest |-> acc, i |-> i]
  ELSE LET e == ParseElem(ls, i, 1) IN ParseRest(ls, e.i, c, Append(acc, e.e))
ParseItem(ls, i, j) ==
  LET tk == LineToks(ls[i])
      c == tk[j].col
      f == ParseElem(ls, i, j + 1)
      r == ParseRest(ls, f.i, c, <<>>)
  IN [t |-> [first |-> f.e, rest |-> r.rest], i |-> r.i]
Parsed(ls) == ParseItem(ls, 1, 1).t

RECURSIVE InlineR(_)
InlineR(t) == ~t.first.w \/ \E k \in 1..Len(t.rest) : ~t.rest[k].w /\ InlineR(t.rest[k].it)
HasInline == InlineR(Tree)

InvNestingPlain  == ~HasInline => \A w \in {0, 40} : Parsed(Out(w)) = Tree
InvNestingInline == HasInline => \A w \in {0, 40} : Parsed(Out(w)) = Tree
(* C12 at model level: every line is indented by a multiple of the unit ... *)
InvIndentUnit == \A i \in 1..Len(Out(40)) : Out(40)[i] = "" \/ Ind(Out(40)[i]) % Unit = 0
(* ... and the layout does not depend on the width (there is nothing to break) *)
InvWidthFree  == Out(0) = Out(40)

Gen == GenOn => PrintT(<<"GEN", ToJson([inst |-> "item", unit |-> Unit, src |-> Source, inline |-> HasInline,
                                        pred |-> [w \in {0, 40} |-> Out(w)]])>>)
=============================================================================
