------------------------------ MODULE Session ------------------------------
(***************************************************************************)
(* C17 — histories of format calls (DESIGN.md §6 C17).                     *)
(*                                                                         *)
(* Threads run Pipeline instances on documents of a store under            *)
(* configurations; the phases of concurrent calls interleave freely.  The  *)
(* result of a call is a function of (document, configuration) only —      *)
(* modelled by the constant function F; the history variable memo records  *)
(* the first result seen per (document, configuration) and Deterministic   *)
(* says no later call disagrees with it.  The model has no variable shared *)
(* between calls, so the property holds in it by construction; what is     *)
(* checked against the code is that every recorded history — sequential,   *)
(* free-running threads, and TLC-generated phase interleavings replayed    *)
(* through hook H2 — is a behaviour of this model.                         *)
(***************************************************************************)
EXTENDS Naturals, Sequences, FiniteSets, TLC
CONSTANTS Threads, Docs, Cfgs, MaxCalls

PhaseSeq == <<"parsed", "attributed", "converted", "rendered", "stripped", "end">>

VARIABLES call,    \* [Threads -> [doc, cfg, ph]]  ph = 0 idle, 1..6 = index into PhaseSeq reached
          memo,    \* [Docs \X Cfgs -> Nat]   0 = unknown, else 1 + result id
          hist,    \* the schedule so far: sequence of thread ids (one entry per phase step)
          ncalls
vars == <<call, memo, hist, ncalls>>

F(d, c) == 1                                \* the (unknown) pure function; any constant stands for it

Idle == [doc |-> 0, cfg |-> 0, ph |-> 0]
Init == /\ call = [t \in Threads |-> Idle]
        /\ memo = [p \in Docs \X Cfgs |-> 0]
        /\ hist = <<>> /\ ncalls = 0

Begin(t, d, c) == /\ call[t].ph = 0 /\ ncalls < MaxCalls
                  /\ call' = [call EXCEPT ![t] = [doc |-> d, cfg |-> c, ph |-> 1]]
                  /\ ncalls' = ncalls + 1
                  /\ hist' = Append(hist, t)
                  /\ UNCHANGED memo
Step(t) == /\ call[t].ph \in 1..(Len(PhaseSeq) - 1)
           /\ call' = [call EXCEPT ![t].ph = @ + 1]
           /\ hist' = Append(hist, t)
           /\ IF call[t].ph + 1 = Len(PhaseSeq)                       \* End: the call returns F(d, c)
              THEN memo' = [memo EXCEPT ![<<call[t].doc, call[t].cfg>>] = IF @ = 0 THEN 1 + F(call[t].doc, call[t].cfg) ELSE @]
              ELSE UNCHANGED memo
           /\ UNCHANGED ncalls
Finish(t) == /\ call[t].ph = Len(PhaseSeq)
             /\ call' = [call EXCEPT ![t] = Idle]
             /\ UNCHANGED <<memo, hist, ncalls>>
Next == \E t \in Threads : Step(t) \/ Finish(t) \/ \E d \in Docs, c \in Cfgs : Begin(t, d, c)
Spec == Init /\ [][Next]_vars

Deterministic == \A t \in Threads : call[t].ph = Len(PhaseSeq) =>
                    memo[<<call[t].doc, call[t].cfg>>] = 1 + F(call[t].doc, call[t].cfg)
(* Generator: complete schedules of concurrent calls, one line each (spec -> implementation). *)
AllDone == ncalls = MaxCalls /\ \A t \in Threads : call[t].ph = 0
GenSched == AllDone => PrintT(<<"SCHED", hist>>)

(* Acceptance of a recorded history: `evs` is ordered by the controller's sequence number; results
   of equal (doc, cfgid) must be equal. *)
DeterministicHistory(evs) ==
  \A i, j \in 1..Len(evs) : (evs[i].doc = evs[j].doc /\ evs[i].cfgid = evs[j].cfgid) => evs[i].res = evs[j].res
=============================================================================
