----------------------------- MODULE ChainLayout -----------------------------
(***************************************************************************)
(* L2 — `ChainStylist` (crates/typstyle-core/src/pretty/layout/chain.rs)   *)
(* for a binary chain of one precedence: `process` (Body / Op / Comment /  *)
(* Attached / Linebreak items, can_attach) and `print_doc` (leading,       *)
(* has_break, space_after), as used by convert_binary_chain with           *)
(* space_around_op = TRUE.                                                 *)
(*                                                                         *)
(* Child events in source order: opd (T* op T* opd)+ — the first opd is    *)
(* the innermost left operand (the fallback converter); every later opd is *)
(* the right operand of one Binary node, the trivia before it belongs to   *)
(* that node.  [e |-> "opd"|"op"|"bc"|"lc", txt], [e |-> "sp"],            *)
(* [e |-> "nl", n].                                                        *)
(***************************************************************************)
EXTENDS DocRender

(* The code as found before fix F27 (two attached comments after an operator were not separated by a blank, unlike two
   detached ones: `a./* c1 *//* c2 */b` broken at the dots came back as `./* c1 */ /* c2 */b` on the next run).  Empty in
   every check; bin/selftest overrides it to show that InvConvergence of DotChainMC is able to fail. *)
AsFoundChain == {}

C0 == [items |-> <<>>, canAttach |-> FALSE, seenOp |-> FALSE, nOps |-> 0, hasCmt |-> FALSE]

LastIsCmt(st) == st.items # <<>> /\ st.items[Len(st.items)].t \in {"att", "cmt"}

CStep(st, ev) ==
  CASE ev.e = "opd" -> [st EXCEPT !.items = Append(@, [t |-> "body", doc |-> T(ev.txt)]), !.canAttach = st.seenOp]
    [] ev.e = "op"  -> [st EXCEPT !.items = Append(@, [t |-> "op", doc |-> T(ev.txt)]), !.seenOp = TRUE, !.nOps = @ + 1]
    [] ev.e \in {"bc", "lc"} ->
         [st EXCEPT !.items = Append(@, [t |-> IF st.canAttach THEN "att" ELSE "cmt", doc |-> T(ev.txt)]), !.hasCmt = TRUE]
    [] ev.e = "nl"  -> [st EXCEPT !.items = IF LastIsCmt(st) THEN Append(@, [t |-> "lb"]) ELSE @, !.canAttach = FALSE]
    [] ev.e = "sp"  -> st
RECURSIVE CProcess(_, _, _)
CProcess(st, seq, i) == IF i > Len(seq) THEN st ELSE CProcess(CStep(st, seq[i]), seq, i + 1)

AddLast(docs, d) == [docs EXCEPT ![Len(docs)] = Cat(@, d)]
P0 == [docs |-> <<>>, hasBreak |-> FALSE, leading |-> TRUE, spaceAfter |-> TRUE]
(* print_doc, space_around_op = TRUE (op_sep = line), no_break_single = FALSE *)
PStep(p, it) ==
  CASE it.t = "body" -> [p EXCEPT !.docs = IF p.leading THEN Append(@, it.doc) ELSE AddLast(@, it.doc),
                                  !.leading = FALSE, !.spaceAfter = TRUE]
    [] it.t = "op"   -> LET d1 == IF p.hasBreak /\ p.leading THEN p.docs ELSE Append(p.docs, LINE)
                        IN [p EXCEPT !.docs = Append(d1, Cat(it.doc, T(" "))), !.hasBreak = FALSE, !.leading = FALSE,
                                     !.spaceAfter = FALSE]
    [] it.t = "cmt"  -> [p EXCEPT !.docs = IF p.leading THEN Append(@, it.doc)
                                           ELSE AddLast(@, IF p.spaceAfter THEN Cat(SPACE, it.doc) ELSE it.doc),
                                  !.leading = FALSE, !.spaceAfter = TRUE]
    [] it.t = "att"  -> [p EXCEPT !.docs = IF @ = <<>> THEN @ ELSE AddLast(@, IF p.spaceAfter THEN Cat(SPACE, it.doc) ELSE it.doc),
                                  !.spaceAfter = IF "F27" \in AsFoundChain THEN @ ELSE TRUE]     \* as found: left as it was
    [] it.t = "lb"   -> [p EXCEPT !.docs = Append(@, HL), !.hasBreak = TRUE, !.leading = TRUE]
RECURSIVE PRun(_, _, _)
PRun(p, items, i) == IF i > Len(items) THEN p ELSE PRun(PStep(p, items[i]), items, i + 1)

ChainDoc(seq, unit) ==
  LET st == CProcess(C0, seq, 1)
      p == PRun(P0, st.items, 1)
      first == p.docs[1]
      follow == CatAll(NIL, Tail(p.docs), 1)                       \* docs.remove(0); arena.concat(docs)
  IN Group(Cat(first, Nest(unit, follow)))
=============================================================================
