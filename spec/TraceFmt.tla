------------------------------ MODULE TraceFmt ------------------------------
(***************************************************************************)
(* Monitor-style trace specification for `fmt` events (DESIGN.md §3.3).    *)
(*                                                                         *)
(* The abstract system is FormatStep: a buffer holding a text; the action  *)
(* Format replaces it by ANY text related to it by the contract relations. *)
(* Each recorded call of the real formatter must be such a step.  The      *)
(* monitor never blocks: an event that is not a step of the contract is    *)
(* reported (one VIOL line per failing relation) and the walk continues,   *)
(* so that one run reports every violating document of a batch.            *)
(***************************************************************************)
EXTENDS Relations, Json, IOUtils

CONSTANT Rels          \* which relations this run decides, e.g. {"R01", "R04"}

Rec == ndJsonDeserialize(IOEnv.TRACE)

VARIABLES l, nv, nchk
vars == <<l, nv, nchk>>

(* An event takes part only if the formatter accepted the input. *)
(* R05 speaks about every fmt event, whatever its outcome *)
Applicable5(e) == e.ev = "fmt" /\ "R05" \in Rels
Applicable(e) == Applicable5(e) \/ (e.ev \in {"fmt", "imp", "off", "unit"} /\ e.outcome = "ok") \/ e.ev \in {"range", "fe", "obs"}

Holds(r, e) ==
  CASE r = "R01" -> ~e.oerr /\ R01(e)
    [] r = "R03" -> R03(e)
    [] r = "R04" -> R04(e)
    [] r = "R06" -> e.oerr \/ R06(e)
    [] r = "R08" -> e.oerr \/ R08(e)
    [] r = "R09" -> e.oerr \/ R09(e)
    [] r = "R10" -> e.oerr \/ R10(e)
    [] r = "R11" -> R11(e)
    [] r = "R12a" -> R12a(e)
    [] r = "R12b" -> R12b(e)
    [] r = "R19" -> R19(e)
    [] r = "R07" -> e.oerr \/ R07(e)
    [] r = "R05" -> R05(e)
    [] r = "R16" -> R16(e)
    [] r = "R02" -> R02(e)
    [] r = "R13NoPanic" -> R13NoPanic(e)
    [] r = "R13Cover" -> R13Cover(e)
    [] r = "R13Refuse" -> R13Refuse(e)
    [] r = "R13Splice" -> R13Splice(e)

(* which relations speak about which kind of event *)
R13s == {"R13NoPanic", "R13Cover", "R13Refuse", "R13Splice"}
RelsOf(e) == CASE e.ev = "fmt" /\ e.outcome # "ok" -> Rels \cap {"R05"}
               [] e.ev = "fmt" -> Rels \ ({"R12b", "R19", "R07", "R16", "R02"} \cup R13s)
               [] e.ev = "fe" -> Rels \cap {"R16"}
               [] e.ev = "obs" -> Rels \cap {"R02"}
               [] e.ev = "range" -> Rels \cap R13s
               [] e.ev = "unit" -> Rels \cap {"R12b"}
               [] e.ev = "imp" -> Rels \cap {"R19"}
               [] e.ev = "off" -> Rels \cap {"R07"}
               [] OTHER -> {}
Failing(e) == IF Applicable(e) THEN {r \in RelsOf(e) : ~Holds(r, e)} ELSE {}

WidthOf(e) == IF e.ev \in {"range", "fe", "obs"} THEN e.w ELSE e.ws[1]
Extra(e) == IF e.ev = "range" THEN [s |-> e.reqs[1].s, e |-> e.reqs[1].e, outcome |-> e.outcome]
            ELSE IF e.ev = "fe" THEN [s |-> 0, e |-> 0, outcome |-> e.fe]
            ELSE [s |-> 0, e |-> 0, outcome |-> "ok"]
Report(e, f) == \A r \in f : PrintT(<<"VIOL", ToJson([r |-> r, id |-> e.id, sha |-> e.sha, tab |-> e.tab,
                                                       bl |-> e.bl, ro |-> e.ro, w |-> WidthOf(e), x |-> Extra(e)])>>)

Init == l = 1 /\ nv = 0 /\ nchk = 0
Next == /\ l <= Len(Rec)
        /\ l' = l + 1
        /\ LET e == Rec[l]
               f == Failing(e)
           IN /\ nv' = nv + Cardinality(f)
              /\ nchk' = nchk + (IF Applicable(e) THEN 1 ELSE 0)
              /\ (f # {} => Report(e, f))
Spec == Init /\ [][Next]_vars

(* Acceptance: the whole trace was consumed; the script reads the DONE line. *)
Done == l = Len(Rec) + 1 => PrintT(<<"DONE", l - 1, nchk, nv>>)
=============================================================================
