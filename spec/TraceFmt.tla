------------------------------ MODULE TraceFmt ------------------------------
(***************************************************************************)
(* Monitor-style trace specification for `fmt` events (DESIGN.md §3.3).    *)
(*                                                                         *)
(* The abstract system is FormatStep: a buffer holding a text; the action  *)
(* Format replaces it by ANY text related to it by the contract relations. *)
(* Each recorded call of the real formatter must be such a step.  The      *)
(* monitor never blocks: an event that is not a step of the contract is    *)
(* reported (one VIOL line per failing relation) and the walk continues,   *)
(* so that one run reports every violating document of a batch.            *)
(***************************************************************************)
EXTENDS Relations, Json, IOUtils

CONSTANT Rels          \* which relations this run decides, e.g. {"R01", "R04"}

Rec == ndJsonDeserialize(IOEnv.TRACE)

VARIABLES l, nv, nchk
vars == <<l, nv, nchk>>

(* An event takes part only if the formatter accepted the input. *)
Applicable(e) == e.ev = "fmt" /\ e.outcome = "ok"

Holds(r, e) ==
  CASE r = "R01" -> ~e.oerr /\ R01(e)
    [] r = "R03" -> R03(e)
    [] r = "R04" -> R04(e)
    [] r = "R06" -> e.oerr \/ R06(e)
    [] r = "R08" -> e.oerr \/ R08(e)
    [] r = "R09" -> e.oerr \/ R09(e)
    [] r = "R10" -> e.oerr \/ R10(e)
    [] r = "R11" -> R11(e)
    [] r = "R12a" -> R12a(e)

Failing(e) == IF Applicable(e) THEN {r \in Rels : ~Holds(r, e)} ELSE {}

Report(e, f) == \A r \in f : PrintT(<<"VIOL", ToJson([r |-> r, id |-> e.id, sha |-> e.sha, tab |-> e.tab,
                                                       bl |-> e.bl, ro |-> e.ro, w |-> e.ws[1]])>>)

Init == l = 1 /\ nv = 0 /\ nchk = 0
Next == /\ l <= Len(Rec)
        /\ l' = l + 1
        /\ LET e == Rec[l]
               f == Failing(e)
           IN /\ nv' = nv + Cardinality(f)
              /\ nchk' = nchk + (IF Applicable(e) THEN 1 ELSE 0)
              /\ (f # {} => Report(e, f))
Spec == Init /\ [][Next]_vars

(* Acceptance: the whole trace was consumed; the script reads the DONE line. *)
Done == l = Len(Rec) + 1 => PrintT(<<"DONE", l - 1, nchk, nv>>)
=============================================================================
