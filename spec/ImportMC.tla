------------------------------- MODULE ImportMC -------------------------------
(***************************************************************************)
(* L2 — the items of an import statement (crates/typstyle-core/src/pretty/ *)
(* import.rs): `convert_import` (prefix + items), `convert_import_items`   *)
(* (the reorder guard, the sort of ALL flattened children by their printed *)
(* text, then ListStylist with omit_delim_flat / omit_delim_empty) and     *)
(* `check_import_name_duplication` (bound name = last path segment, or the *)
(* new name of a renamed item).                                            *)
(*                                                                         *)
(* Child events between the (optional) parentheses:                        *)
(*   item (T* comma T* item)* [comma] T*   with T = blank | line feed |    *)
(*   block comment | line comment; line feeds and line comments only when  *)
(* the source has parentheses (otherwise the statement would end).         *)
(*                                                                         *)
(* AsFoundI (empty in every check; bin/selftest): the bound name computed  *)
(* as the FIRST identifier of the item ("FirstIdent", seeded change C19-A) *)
(* or as the item's whole printed text ("KeyName", seeded change C19-C):   *)
(* InvGuard fails.                                                         *)
(***************************************************************************)
EXTENDS ListLayout, SequencesExt, Json
CONSTANTS ItemIds, MaxItems, MaxTriv, MaxCmt, Widths, Unit, GenOn, AsFoundI

VARIABLES seq, paren, phase, needNl, done
vars == <<seq, paren, phase, needNl, done>>

(* id -> printed text, rank of the printed text in byte order, the name the item binds, its first identifier *)
ItemOf(id) ==
  CASE id = "a"   -> [txt |-> "a",        rank |-> 1, bound |-> "a", first |-> "a"]
    [] id = "ab"  -> [txt |-> "a as b",   rank |-> 2, bound |-> "b", first |-> "b"]
    [] id = "b"   -> [txt |-> "b",        rank |-> 3, bound |-> "b", first |-> "b"]
    [] id = "ba"  -> [txt |-> "b as a",   rank |-> 4, bound |-> "a", first |-> "a"]
    [] id = "ma"  -> [txt |-> "m.a",      rank |-> 5, bound |-> "a", first |-> "m"]
    [] id = "mac" -> [txt |-> "m.a as c", rank |-> 6, bound |-> "c", first |-> "c"]
    [] id = "mb"  -> [txt |-> "m.b",      rank |-> 7, bound |-> "b", first |-> "m"]
BcTxt(k) == CASE k = 1 -> "/* c1 */" [] OTHER -> "/* c2 */"
LcTxt(k) == CASE k = 1 -> "// c1" [] OTHER -> "// c2"
ItemEv(id) == [e |-> "item", txt |-> ItemOf(id).txt, id |-> id]
Count(kinds) == Cardinality({i \in 1..Len(seq) : seq[i].e \in kinds})
LastWs == seq # <<>> /\ seq[Len(seq)].e \in {"sp", "nl"}
UsedId(id) == \E i \in 1..Len(seq) : seq[i].e = "item" /\ seq[i].id = id

Init == seq = <<>> /\ paren \in BOOLEAN /\ phase = "start" /\ needNl = FALSE /\ done = FALSE
Emit(ev, ph, nn) == seq' = Append(seq, ev) /\ phase' = ph /\ needNl' = nn /\ done' = FALSE /\ UNCHANGED paren
AItem == ~done /\ ~needNl /\ phase \in {"start", "comma"} /\ Count({"item"}) < MaxItems
         /\ \E id \in ItemIds : Emit(ItemEv(id), "item", FALSE)           \* the same item twice is allowed (a duplicate)
AComma == ~done /\ ~needNl /\ phase = "item" /\ Emit([e |-> "comma"], "comma", FALSE)
(* without parentheses the trivia before the first item belongs to the prefix of the statement, not to the items *)
TRoom == ~done /\ Count({"sp", "nl", "bc", "lc"}) < MaxTriv /\ (paren \/ phase # "start")
ASp == TRoom /\ ~needNl /\ ~LastWs /\ Emit([e |-> "sp"], phase, FALSE)
ANl == TRoom /\ paren /\ ~LastWs /\ Emit([e |-> "nl", n |-> 1], phase, FALSE)
ABc == TRoom /\ ~needNl /\ Count({"bc", "lc"}) < MaxCmt /\ Emit([e |-> "bc", txt |-> BcTxt(Count({"bc", "lc"}) + 1)], phase, FALSE)
ALc == TRoom /\ paren /\ ~needNl /\ Count({"bc", "lc"}) < MaxCmt /\ Emit([e |-> "lc", txt |-> LcTxt(Count({"bc", "lc"}) + 1)], phase, TRUE)
(* without parentheses the statement ends with its last item (trailing trivia would belong to the markup) *)
AFinish == ~done /\ ~needNl /\ Count({"item"}) >= 1 /\ (paren \/ seq[Len(seq)].e = "item")
           /\ phase \in {"item", "comma"} /\ (phase = "comma" => paren \/ TRUE)
           /\ done' = TRUE /\ UNCHANGED <<seq, paren, phase, needNl>>
Next == AItem \/ AComma \/ ASp \/ ANl \/ ABc \/ ALc \/ AFinish
Spec == Init /\ [][Next]_vars

(***************************************************************************)
(* convert_import_items                                                    *)
(***************************************************************************)
Items(sq) == SelectSeq(sq, LAMBDA ev : ev.e = "item")
HasComment(sq) == \E i \in 1..Len(sq) : sq[i].e \in {"bc", "lc"}
BoundOf(id) == IF "FirstIdent" \in AsFoundI THEN ItemOf(id).first
               ELSE IF "KeyName" \in AsFoundI /\ id \in {"ma", "mb"} THEN ItemOf(id).txt
               ELSE ItemOf(id).bound
(* check_import_name_duplication: TRUE iff no name is bound twice *)
NoDup(sq) == LET its == Items(sq) IN \A i, j \in 1..Len(its) : i # j => BoundOf(its[i].id) # BoundOf(its[j].id)
(* the contract's guard (C19): what the property says, independent of the code's helper *)
TrueNoDup(sq) == LET its == Items(sq) IN \A i, j \in 1..Len(its) : i # j => ItemOf(its[i].id).bound # ItemOf(its[j].id).bound
(* import_item_sort_key: white space sorts first (empty key), then the separators, then the items by printed text *)
KeyRank(ev) == CASE ev.e \in {"sp", "nl"} -> 0 [] ev.e = "comma" -> 1 [] ev.e = "item" -> 1 + ItemOf(ev.id).rank [] OTHER -> 0
Sorted(sq) == SortSeq(sq, LAMBDA x, y : KeyRank(x) < KeyRank(y))
Reordered(sq, on) == IF on /\ ~HasComment(sq) /\ NoDup(sq) THEN Sorted(sq) ELSE sq

ImportCfg == [fold |-> "fit", noFront |-> FALSE, noDetach |-> FALSE, keep |-> -1, alwaysIf |-> FALSE,
              sty |-> [DefaultStyle EXCEPT !.omitFlat = TRUE, !.omitEmpty = TRUE], unit |-> Unit]
ItemsDoc(sq, on) == ListDoc(ImportCfg, Reordered(sq, on))
(* convert_import: `import "m.typ":` then a blank and the items *)
Whole(sq, on) == Cat(Cat(Cat(T("#"), Cat(Cat(T("import"), SPACE), Cat(T("\"m.typ\""), T(":")))), Cat(SPACE, ItemsDoc(sq, on))), HL)
OutOf(sq, on, w) == Format(Whole(sq, on), w)
Out(on, w) == OutOf(seq, on, w)

(***************************************************************************)
(* Invariants on the rendered lines                                        *)
(***************************************************************************)
StartsAt(s, t, i) == i + Len(t) - 1 <= Len(s) /\ SubSeq(s, i, i + Len(t) - 1) = t
Occurs(s, t) == {i \in 1..Len(s) : StartsAt(s, t, i)}
EndsWithS(s, t) == Len(t) <= Len(s) /\ SubSeq(s, Len(s) - Len(t) + 1, Len(s)) = t
RECURSIVE LTrimPosS(_, _)
LTrimPosS(s, i) == IF i <= Len(s) /\ SubSeq(s, i, i) = " " THEN LTrimPosS(s, i + 1) ELSE i
TokSet == {ItemOf(id).txt : id \in {"a", "ab", "b", "ba", "ma", "mac", "mb"}} \cup {BcTxt(k) : k \in 1..2} \cup {LcTxt(k) : k \in 1..2}
          \cup {",", "(", ")", "#import \"m.typ\":"}
RECURSIVE LexLine(_, _, _)
LexLine(s, i, acc) ==
  IF i > Len(s) THEN acc
  ELSE IF SubSeq(s, i, i) = " "
       THEN LexLine(s, i + 1, IF acc # <<>> /\ acc[Len(acc)] # " " THEN Append(acc, " ") ELSE acc)
       ELSE LET cand == {t \in TokSet : StartsAt(s, t, i)}
                m == CHOOSE t \in cand : \A u \in cand : Len(u) <= Len(t)
            IN LexLine(s, i + Len(m), Append(acc, m))
IdOfTxt(t) == CHOOSE id \in {"a", "ab", "b", "ba", "ma", "mac", "mb"} : ItemOf(id).txt = t
TokEvent(t) == IF t = " " THEN [e |-> "sp"]
               ELSE IF t = "," THEN [e |-> "comma"]
               ELSE IF t \in {BcTxt(k) : k \in 1..2} THEN [e |-> "bc", txt |-> t]
               ELSE IF t \in {LcTxt(k) : k \in 1..2} THEN [e |-> "lc", txt |-> t]
               ELSE IF t \in {"(", ")", "#import \"m.typ\":"} THEN [e |-> "delim", txt |-> t]
               ELSE ItemEv(IdOfTxt(t))
RECURSIVE LexLines(_, _, _, _)
LexLines(ls, k, acc, pend) ==
  IF k > Len(ls) THEN acc
  ELSE LET toks == LexLine(ls[k], 1, <<>>)
           evs == [j \in 1..Len(toks) |-> TokEvent(toks[j])]
       IN IF toks = <<>> THEN LexLines(ls, k + 1, acc, pend + 1)
          ELSE LexLines(ls, k + 1, (IF acc # <<>> /\ pend > 0 THEN Append(acc, [e |-> "nl", n |-> 1]) ELSE acc)
                                   \o (IF evs[1].e = "sp" THEN Tail(evs) ELSE evs), 1)
(* the children between the parentheses (or after the colon) of the output *)
Relex(ls) == LET all == LexLines(ls, 1, <<>>, 0)
                 body == SelectSeq(SubSeq(all, 2, Len(all)), LAMBDA x : x.e # "delim")
             IN IF body # <<>> /\ body[1].e = "sp" THEN Tail(body) ELSE body
IdsOf(evs) == LET its == Items(evs) IN [i \in 1..Len(its) |-> its[i].id]
OutItems(ls) == IdsOf(Relex(ls))
SrcItems == IdsOf(seq)
IdSet == {"a", "ab", "b", "ba", "ma", "mac", "mb"}
CountId(ids, x) == Cardinality({i \in 1..Len(ids) : ids[i] = x})
IsPermutation(s, t) == Len(s) = Len(t) /\ \A x \in IdSet : CountId(s, x) = CountId(t, x)
IsSortedIds(ids) == \A i \in 1..(Len(ids) - 1) : ItemOf(ids[i]).rank <= ItemOf(ids[i + 1]).rank
LineComments == {seq[i].txt : i \in {j \in 1..Len(seq) : seq[j].e = "lc"}}

(* C19: with reordering off the items keep their source order, at every width *)
InvOffOrder == done => \A w \in Widths : OutItems(Out(FALSE, w)) = SrcItems
(* C19: with reordering on the items are a permutation of the source's ... *)
InvOnPermutation == done => \A w \in Widths : IsPermutation(OutItems(Out(TRUE, w)), SrcItems)
(* ... sorted exactly when the import has no comment and binds no name twice; otherwise the order is the source's *)
InvGuard == done => \A w \in Widths :
               IF ~HasComment(seq) /\ TrueNoDup(seq) THEN IsSortedIds(OutItems(Out(TRUE, w)))
               ELSE Out(TRUE, w) = Out(FALSE, w)
(* C06 / C04: comments survive, a line comment ends its line *)
InvTermination == done => \A w \in Widths : \A on \in BOOLEAN : \A i \in 1..Len(Out(on, w)) : \A t \in LineComments :
                             Occurs(Out(on, w)[i], t) # {} => EndsWithS(Out(on, w)[i], t)
InvComments == done => \A w \in Widths : \A on \in BOOLEAN :
                  SelectSeq(Relex(Out(on, w)), LAMBDA x : x.e \in {"bc", "lc"}) = SelectSeq(seq, LAMBDA x : x.e \in {"bc", "lc"})
InvIndentUnit == done => \A w \in Widths : \A on \in BOOLEAN : \A i \in 1..Len(Out(on, w)) :
                    Out(on, w)[i] = "" \/ (LTrimPosS(Out(on, w)[i], 1) - 1) \in {0, Unit}
(* C03 at model level, both settings: the output laid out again *)
InvConvergence == done => \A w \in Widths : \A on \in BOOLEAN : OutOf(Relex(Out(on, w)), on, w) = Out(on, w)

(* all of the above with every output rendered once per state (TLC caches a LET value, not an operator application) *)
InvAll ==
  done =>
    LET outs == [on \in BOOLEAN |-> [w \in Widths |-> Out(on, w)]]
        rel == [on \in BOOLEAN |-> [w \in Widths |-> Relex(outs[on][w])]]
        src == SrcItems
        cm == SelectSeq(seq, LAMBDA x : x.e \in {"bc", "lc"})
        guard == ~HasComment(seq) /\ TrueNoDup(seq)
    IN \A w \in Widths :
         /\ IdsOf(rel[FALSE][w]) = src                                                  \* InvOffOrder
         /\ IsPermutation(IdsOf(rel[TRUE][w]), src)                                     \* InvOnPermutation
         /\ IF guard THEN IsSortedIds(IdsOf(rel[TRUE][w])) ELSE outs[TRUE][w] = outs[FALSE][w]   \* InvGuard
         /\ \A on \in BOOLEAN :
              /\ \A i \in 1..Len(outs[on][w]) :
                    /\ \A t \in LineComments : Occurs(outs[on][w][i], t) # {} => EndsWithS(outs[on][w][i], t)
                    /\ outs[on][w][i] = "" \/ (LTrimPosS(outs[on][w][i], 1) - 1) \in {0, Unit}
              /\ SelectSeq(rel[on][w], LAMBDA x : x.e \in {"bc", "lc"}) = cm
              /\ OutOf(rel[on][w], on, w) = outs[on][w]                                  \* InvConvergence

Gen == (done /\ GenOn) => PrintT(<<"GEN", ToJson([inst |-> "import", unit |-> Unit, paren |-> paren,
                                                 seq |-> [i \in 1..Len(seq) |-> IF seq[i].e = "item" THEN [e |-> "item", txt |-> seq[i].txt] ELSE seq[i]],
                                                 pred |-> [w \in Widths |-> Out(FALSE, w)],
                                                 pred_on |-> [w \in Widths |-> Out(TRUE, w)]])>>)
=============================================================================
