----------------------------- MODULE TraceCost -----------------------------
(* Trace validation of `visit` events (hook H1) against Cost.tla (C18). *)
EXTENDS Cost, Json, IOUtils
CONSTANT Rels
Rec == ndJsonDeserialize(IOEnv.TRACE)
VARIABLES l, nv, nchk
tvars == <<l, nv, nchk, vars>>
HoldsV(r, e) ==
  CASE r = "BoundedVisits" -> AcceptsLog(e.hist, e.visits, e.nodes)
    [] r = "Completes" -> e.outcome = "ok"
Failing(e) == IF e.ev = "visit" THEN {r \in Rels : ~HoldsV(r, e)} ELSE {}
TInit == l = 1 /\ nv = 0 /\ nchk = 0 /\ Init
TNext == /\ l <= Len(Rec) /\ l' = l + 1 /\ UNCHANGED vars
         /\ LET e == Rec[l]  f == Failing(e) IN
            /\ nv' = nv + Cardinality(f) /\ nchk' = nchk + 1
            /\ f # {} => \A r \in f : PrintT(<<"VIOL", ToJson([r |-> r, id |-> e.id, sha |-> e.sha, tab |-> e.tab, bl |-> e.bl,
                                                               ro |-> e.ro, w |-> e.w, visits |-> e.visits, nodes |-> e.nodes])>>)
TSpec == TInit /\ [][TNext]_tvars
Done == l = Len(Rec) + 1 => PrintT(<<"DONE", l - 1, nchk, nv>>)
=============================================================================
