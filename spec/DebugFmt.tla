------------------------------ MODULE DebugFmt ------------------------------
(* Maintainer tool: prints the normal forms / signatures of the events of a (small) trace so
   that a rejection can be diagnosed.  Not used by any registered check. *)
EXTENDS Relations, Json, IOUtils
Rec == ndJsonDeserialize(IOEnv.TRACE)
VARIABLE l
Init == l = 1
Next == /\ l <= Len(Rec) /\ l' = l + 1
        /\ LET e == Rec[l] IN
           IF e.outcome # "ok" THEN TRUE ELSE
           /\ ("in" \in DOMAIN e =>
                 /\ PrintT(<<"NORMIN", ToJson(Norm(e.in, "markup"))>>)
                 /\ PrintT(<<"NORMOUT", ToJson(Norm(e.out, "markup"))>>))
           /\ ("pin" \in DOMAIN e =>
                 /\ PrintT(<<"CMTIN", ToJson(CmtPos(e.pin.lv))>>) /\ PrintT(<<"CMTOUT", ToJson(CmtPos(e.pout.lv))>>)
                 /\ PrintT(<<"WORDSIN", ToJson(Words(e.pin.lv))>>) /\ PrintT(<<"WORDSOUT", ToJson(Words(e.pout.lv))>>)
                 /\ PrintT(<<"LITIN", ToJson(LitSeq(e.pin.lv))>>) /\ PrintT(<<"LITOUT", ToJson(LitSeq(e.pout.lv))>>)
                 /\ PrintT(<<"MSIGIN", ToJson([i \in 1..Len(e.pin.mt) |-> MSig(e.pin.mt[i])])>>)
                 /\ PrintT(<<"MSIGOUT", ToJson([i \in 1..Len(e.pout.mt) |-> MSig(e.pout.mt[i])])>>))
Spec == Init /\ [][Next]_l
=============================================================================
