--------------------------- MODULE TracePipeline ---------------------------
(* Trace validation of `call` events against Pipeline.tla (C05). *)
EXTENDS Pipeline, Json, IOUtils, TLC, FiniteSets
CONSTANT Rels
Rec == ndJsonDeserialize(IOEnv.TRACE)
VARIABLES l, nv, nchk
tvars == <<l, nv, nchk, vars>>
Returned(e) == e.outcome \in {"ok", "err"}           \* no action for panic / abort / timeout
HoldsP(r, e) ==
  CASE r = "Returns" -> Returned(e) /\ e.wrapper = "ok"
    [] r = "PhasesFollowSpec" -> ~Returned(e) \/ AcceptsPhases(e.phases, e.ierr)
    [] r = "RefusalExact" -> ~Returned(e) \/ ((e.outcome = "err") <=> e.ierr)
    [] r = "WrapperContract" -> (e.wrapper # "ok") \/ (e.ierr => e.wrapper_same)
    [] r = "NonEmpty" -> e.outcome # "ok" \/ e.nonempty
Failing(e) == IF e.ev = "call" THEN {r \in Rels : ~HoldsP(r, e)} ELSE {}
TInit == l = 1 /\ nv = 0 /\ nchk = 0 /\ pc = "idle" /\ erroneous = FALSE /\ res = "none" /\ wrapper = "none"
TNext == /\ l <= Len(Rec) /\ l' = l + 1 /\ UNCHANGED vars
         /\ LET e == Rec[l]  f == Failing(e) IN
            /\ nv' = nv + Cardinality(f) /\ nchk' = nchk + 1
            /\ f # {} => \A r \in f : PrintT(<<"VIOL", ToJson([r |-> r, id |-> e.id, sha |-> e.sha, tab |-> e.tab, bl |-> e.bl,
                                                               ro |-> e.ro, w |-> e.w, outcome |-> e.outcome])>>)
TSpec == TInit /\ [][TNext]_tvars
Done == l = Len(Rec) + 1 => PrintT(<<"DONE", l - 1, nchk, nv>>)
=============================================================================
