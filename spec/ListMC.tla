------------------------------- MODULE ListMC -------------------------------
(***************************************************************************)
(* Design check and behaviour generator for ListLayout.tla.                *)
(*                                                                         *)
(* Environment (`Syntax`): the child sequences the Typst parser produces   *)
(* for an error-free list-like node — items separated by commas (or, in a  *)
(* code block, by line feeds), block and line comments anywhere, a line    *)
(* comment always followed by a line feed, never two whitespace children   *)
(* in a row (the lexer merges them).  TLC enumerates every such sequence   *)
(* up to MaxLen events; each complete sequence is laid out by the model at *)
(* every width 0..MaxW and the token-level invariants are evaluated on the *)
(* rendered lines.  With GenOn the complete behaviours are printed (spec   *)
(* -> implementation: the harness concretises them and formats them with   *)
(* the real code at the same widths).                                      *)
(***************************************************************************)
EXTENDS ListLayout, Json

CONSTANTS Inst,      \* which call site
          MaxLen, MaxItems, MaxCmt, MaxNl, MaxW, Unit, GenOn

VARIABLES seq, phase, needNl, done
vars == <<seq, phase, needNl, done>>

ItemTxt(k) == IF Inst = "eq" THEN "a+b" ELSE IF Inst = "dict" THEN (CASE k = 1 -> "k1: a1" [] k = 2 -> "k2: bb2" [] k = 3 -> "k3: c3" [] OTHER -> "k4: d4")
              ELSE (CASE k = 1 -> "a1" [] k = 2 -> "bb2" [] k = 3 -> "cccc3" [] OTHER -> "d4")
BcTxt(k) == CASE k = 1 -> "/* c1 */" [] k = 2 -> "/* c2 */" [] OTHER -> "/* c3 */"
LcTxt(k) == CASE k = 1 -> "// c1" [] k = 2 -> "// c2" [] OTHER -> "// c3"

NIt == NItems(seq)
NCm == Cardinality({i \in 1..Len(seq) : seq[i].e \in {"bc", "lc"}})
LastWs == seq # <<>> /\ IsWsEv(seq[Len(seq)])
LastNl == seq # <<>> /\ seq[Len(seq)].e = "nl"
Sepless == Inst \in {"block", "paren", "eq"}
(* items of a code block are separated by a line feed: whitespace-with-line-feed somewhere since the last item,
   with only comments / whitespace in between *)
RECURSIVE NlSinceItem(_)
NlSinceItem(i) == IF i = 0 THEN TRUE ELSE IF seq[i].e = "item" THEN FALSE
                  ELSE IF seq[i].e = "nl" THEN TRUE ELSE NlSinceItem(i - 1)

Init == seq = <<>> /\ phase = "start" /\ needNl = FALSE /\ done = FALSE

Emit(ev, ph, nn) == seq' = Append(seq, ev) /\ phase' = ph /\ needNl' = nn /\ done' = FALSE
Room == ~done /\ Len(seq) < MaxLen
AItem == /\ Room /\ ~needNl /\ NIt < MaxItems
         /\ IF Inst \in {"paren", "eq"} THEN NIt = 0
            ELSE IF Inst = "block" THEN (phase = "start" \/ (phase = "item" /\ NlSinceItem(Len(seq))))
            ELSE phase \in {"start", "comma"}
         /\ Emit([e |-> "item", txt |-> ItemTxt(NIt + 1)], "item", FALSE)
AComma == Room /\ ~needNl /\ ~Sepless /\ phase = "item" /\ Emit([e |-> "comma"], "comma", FALSE)
ASp == Room /\ ~needNl /\ ~LastWs /\ Emit([e |-> "sp"], phase, FALSE)
ANl == Room /\ ~LastWs /\ \E k \in 1..MaxNl : Emit([e |-> "nl", n |-> k], phase, FALSE)
ABc == Room /\ ~needNl /\ NCm < MaxCmt /\ Emit([e |-> "bc", txt |-> BcTxt(NCm + 1)], phase, FALSE)
ALc == Room /\ ~needNl /\ NCm < MaxCmt /\ Emit([e |-> "lc", txt |-> LcTxt(NCm + 1)], phase, TRUE)
(* a one-element array needs its trailing comma (otherwise the node is a Parenthesized); a parenthesized
   expression has exactly one item *)
CanFinish == /\ ~needNl
             /\ (Inst = "array" /\ NIt = 1) => phase = "comma"
             /\ Inst \in {"paren", "eq"} => NIt = 1
             /\ Inst = "dict" => NIt >= 1
AFinish == ~done /\ CanFinish /\ done' = TRUE /\ UNCHANGED <<seq, phase, needNl>>
Next == AItem \/ AComma \/ ASp \/ ANl \/ ABc \/ ALc \/ AFinish
Spec == Init /\ [][Next]_vars

(***************************************************************************)
(* The layout of a complete sequence.                                      *)
(***************************************************************************)
ArgsCfgOf(sq) == LET base == CfgOf("args", sq, Unit) IN
                 IF NItems(sq) = 1 THEN [base EXCEPT !.fold = "always", !.noDetach = TRUE] ELSE base   \* a single identifier argument
CfgFor(sq) == IF Inst = "args" THEN ArgsCfgOf(sq) ELSE CfgOf(Inst, sq, Unit)
TheCfg == CfgFor(seq)
Prefix == CASE Inst = "args" -> "#f" [] Inst = "eq" -> "" [] OTHER -> "#"
Whole(d) == IF Prefix = "" THEN Cat(d, HL) ELSE Cat(Cat(T(Prefix), d), HL)     \* `#` node, then the end-of-document line feed
Out(w) == Format(Whole(ListDoc(TheCfg, seq)), w)

(* string helpers on short lines *)
StartsAt(s, t, i) == i + Len(t) - 1 <= Len(s) /\ SubSeq(s, i, i + Len(t) - 1) = t
Occurs(s, t) == {i \in 1..Len(s) : StartsAt(s, t, i)}
EndsWithS(s, t) == Len(t) <= Len(s) /\ SubSeq(s, Len(s) - Len(t) + 1, Len(s)) = t
RECURSIVE LTrimPosS(_, _)
LTrimPosS(s, i) == IF i <= Len(s) /\ SubSeq(s, i, i) = " " THEN LTrimPosS(s, i + 1) ELSE i
RECURSIVE Squeeze(_, _, _)          \* s without blanks, commas and the delimiters
Squeeze(s, i, acc) == IF i > Len(s) THEN acc
                      ELSE LET ch == SubSeq(s, i, i) IN
                           Squeeze(s, i + 1, IF ch \in {" ", ",", "(", ")", "{", "}", "#", "$"} THEN acc ELSE acc \o ch)
RECURSIVE ConcatSq(_, _, _)
ConcatSq(ls, i, acc) == IF i > Len(ls) THEN acc ELSE ConcatSq(ls, i + 1, acc \o Squeeze(ls[i], 1, ""))
Expected == LET toks == SelectSeq(seq, LAMBDA ev : ev.e \in {"item", "bc", "lc"})
                RECURSIVE cat(_, _) cat(i, acc) == IF i > Len(toks) THEN acc ELSE cat(i + 1, acc \o Squeeze(toks[i].txt, 1, ""))
            IN (IF Inst = "args" THEN "f" ELSE "") \o cat(1, "")

LineComments == {seq[i].txt : i \in {j \in 1..Len(seq) : seq[j].e = "lc"}}
(* a line comment is the last thing on its line, in every rendering *)
CommentTermination(ls) == \A i \in 1..Len(ls) : \A t \in LineComments : Occurs(ls[i], t) # {} => EndsWithS(ls[i], t)
(* items, comments come out exactly once and in source order *)
Conservation(ls) == ConcatSq(ls, 1, "") = Expected
(* no two consecutive blanks after the indentation, no blank directly inside a delimiter pair that holds items *)
NoDoubleBlank(ls) == \A i \in 1..Len(ls) : LET s == ls[i] IN
                       \A p \in Occurs(s, "  ") : p < LTrimPosS(s, 1)
(* the indentation of every line is a multiple of the unit *)
IndentUnit(ls) == \A i \in 1..Len(ls) : ls[i] = "" \/ (LTrimPosS(ls[i], 1) - 1) % Unit = 0
(* hygiene: no line ends with a blank *)
Hygiene(ls) == \A i \in 1..Len(ls) : ls[i] = "" \/ ~EndsWithS(ls[i], " ")

Good(ls) == CommentTermination(ls) /\ Conservation(ls) /\ NoDoubleBlank(ls) /\ IndentUnit(ls) /\ Hygiene(ls)
DesignInv == done => \A w \in 0..MaxW : Good(Out(w))
InvTermination  == done => \A w \in 0..MaxW : CommentTermination(Out(w))
InvConservation == done => \A w \in 0..MaxW : Conservation(Out(w))
InvNoDoubleBlank == done => \A w \in 0..MaxW : NoDoubleBlank(Out(w))
InvIndentUnit   == done => \A w \in 0..MaxW : IndentUnit(Out(w))
InvHygiene      == done => \A w \in 0..MaxW : Hygiene(Out(w))

(* wide enough => the layout no longer depends on the width *)
WidthStable == done => LET d == Whole(ListDoc(TheCfg, seq))  n == FlatLen(d) IN Format(d, n) = Format(d, n + 7)

(***************************************************************************)
(* Model-level convergence (C03 without running the code): the model's own *)
(* output is tokenised back into child events (tokens are atomic, so this  *)
(* is exact) and laid out again at the same width; the second layout must  *)
(* equal the first.                                                        *)
(***************************************************************************)
D0 == TheCfg.sty.d0
D1 == TheCfg.sty.d1
TokSet == {ItemTxt(k) : k \in 1..4} \cup {BcTxt(k) : k \in 1..3} \cup {LcTxt(k) : k \in 1..3} \cup {",", D0, D1}
                \cup (IF Prefix = "" THEN {} ELSE {Prefix})
RECURSIVE LexLine(_, _, _)
LexLine(s, i, acc) ==
  IF i > Len(s) THEN acc
  ELSE IF SubSeq(s, i, i) = " "
       THEN LexLine(s, i + 1, IF acc # <<>> /\ acc[Len(acc)] # " " THEN Append(acc, " ") ELSE acc)
       ELSE LET cand == {t \in TokSet : StartsAt(s, t, i)}
                m == CHOOSE t \in cand : \A u \in cand : Len(u) <= Len(t)
            IN LexLine(s, i + Len(m), Append(acc, m))
TokEvent(t) == IF t = " " THEN [e |-> "sp"]
               ELSE IF t = "," THEN [e |-> "comma"]
               ELSE IF t \in {BcTxt(k) : k \in 1..3} THEN [e |-> "bc", txt |-> t]
               ELSE IF t \in {LcTxt(k) : k \in 1..3} THEN [e |-> "lc", txt |-> t]
               ELSE IF t \in {ItemTxt(k) : k \in 1..4} THEN [e |-> "item", txt |-> t]
               ELSE [e |-> "delim", txt |-> t]
(* all tokens of all lines; `pend` = number of line feeds since the last token *)
RECURSIVE LexLines(_, _, _, _)
LexLines(ls, k, acc, pend) ==
  IF k > Len(ls) THEN acc
  ELSE LET toks == LexLine(ls[k], 1, <<>>)
           evs == [j \in 1..Len(toks) |-> TokEvent(toks[j])]
       IN IF toks = <<>> THEN LexLines(ls, k + 1, acc, pend + 1)
          ELSE LexLines(ls, k + 1, (IF acc # <<>> /\ pend > 0 THEN Append(acc, [e |-> "nl", n |-> pend]) ELSE acc) \o evs, 1)
(* the children between the delimiters *)
Relex(ls) == LET all == LexLines(ls, 1, <<>>, 0)
                 open == CHOOSE i \in 1..Len(all) : all[i].e = "delim" /\ all[i].txt = D0
                                /\ \A j \in 1..(i - 1) : ~(all[j].e = "delim" /\ all[j].txt = D0)
                 close == CHOOSE i \in 1..Len(all) : all[i].e = "delim" /\ all[i].txt = D1
                                /\ \A j \in (i + 1)..Len(all) : ~(all[j].e = "delim" /\ all[j].txt = D1)
             IN SubSeq(all, open + 1, close - 1)
OutOf(sq, w) == Format(Whole(ListDoc(CfgFor(sq), sq)), w)
InvConvergence == done => \A w \in 0..MaxW : OutOf(Relex(Out(w)), w) = Out(w)

(* overrides for bin/selftest *)
AsFoundF06 == {"F06"}
AsFoundF09a == {"F09a"}
AsFoundF10 == {"F10"}
AsFoundF20 == {"F20"}

Gen == (done /\ GenOn) => PrintT(<<"GEN", ToJson([inst |-> Inst, unit |-> Unit, seq |-> seq,
                                                 pred |-> [w \in 0..MaxW |-> Out(w)]])>>)
=============================================================================
