-------------------------------- MODULE Cli --------------------------------
(***************************************************************************)
(* L2 + L3 for the command-line driver (DESIGN.md §6, C14 / C15 / C16).    *)
(*                                                                         *)
(* L2: `main.rs` / `fmt.rs` as a state machine over an abstract file       *)
(* system — one action per code step (read, classify, write back, print,   *)
(* walk step with filter_entry, finish).  L3: the contract of C14-C16 as   *)
(* invariants over the same variables, written WITHOUT reference to the    *)
(* driver's own bookkeeping (status, errors) — only to the initial file    *)
(* system, the invocation and the observable outcome.                      *)
(*                                                                         *)
(* Content classes:  F  formatted (a fixed point of Fmt under the          *)
(* invocation's style), U well-formed and Fmt(U) # U (Fmt(U) is of class   *)
(* F: C03), E erroneous, X unreadable (not UTF-8), A absent.               *)
(***************************************************************************)
EXTENDS Naturals, Sequences, FiniteSets, TLC, Json

CONSTANTS MaxPresent,     \* at most this many file slots are populated
          MaxArgs,        \* length bound of a file list
          RootFixed,      \* TRUE: filter_entry exempts the root (repaired code); FALSE: as found
          ReadFailCounted, \* TRUE: format-all counts a read failure (repaired code); FALSE: as found
          DetWalk,        \* TRUE: one fixed directory order (scenario generation); FALSE: any readdir order
          LinkFollowed    \* FALSE: format-all skips symbolic links (the code: walkdir's file_type); TRUE: follows them (bin/selftest)

(***************************************************************************)
(* The static shape of the working directory `w` (cwd of the process).     *)
(***************************************************************************)
Dirs  == {"w", "w/s", "w/.g", "w/x.typ", "w/.r", "w/.r/s"}
Slots == {"w/a.typ", "w/b.typ", "w/n.txt", "w/.h.typ", "w/s/c.typ", "w/.g/e.typ", "w/x.typ/f.typ",
          "w/.r/k.typ", "w/.r/s/m.typ", "w/l.typ"}
(* `w/l.typ` exists only as a SYMBOLIC LINK (class L) to the file in the hidden directory, `.g/e.typ`: a name that looks
   eligible for format-all, pointing at a file that is not *)
LinkSlot == "w/l.typ"
LinkTarget == "w/.g/e.typ"
Parent == [e \in Dirs \cup Slots |->
             CASE e \in {"w/a.typ", "w/b.typ", "w/n.txt", "w/.h.typ", "w/s", "w/.g", "w/x.typ", "w/.r", "w/l.typ"} -> "w"
               [] e = "w/s/c.typ" -> "w/s"   [] e = "w/.g/e.typ" -> "w/.g"   [] e = "w/x.typ/f.typ" -> "w/x.typ"
               [] e \in {"w/.r/k.typ", "w/.r/s"} -> "w/.r"   [] e = "w/.r/s/m.typ" -> "w/.r/s"
               [] e = "w" -> "w"]
HiddenName == {"w/.h.typ", "w/.g", "w/.r"}             \* last component starts with a dot
TypExt     == Slots \ {"w/n.txt"}                      \* extension is "typ" (files only are asked)
Children(d) == {e \in (Dirs \cup Slots) \ {"w"} : Parent[e] = d}

RECURSIVE Anc(_)
Anc(e) == IF e = "w" THEN {} ELSE {Parent[e]} \cup Anc(Parent[e])
Under(root, e) == root \in Anc(e)
(* a hidden component strictly below the root, up to and including e itself *)
HiddenBelow(root, e) == \E x \in {e} \cup Anc(e) : x \in HiddenName /\ root \in Anc(x)

Classes == {"F", "U", "E", "X", "A", "L"}

(***************************************************************************)
(* Invocations.                                                            *)
(***************************************************************************)
ArgPaths == {"w/a.typ", "w/b.typ", "w/n.txt", "w/.h.typ", "w/s/c.typ", "w/x.typ", "w/missing.typ"}
ArgLists == UNION {[1..n -> ArgPaths] : n \in 1..MaxArgs}
Modes    == {"stdout", "inplace", "check"}
(* format-all roots: the directory walked and whether the root's OWN name starts with a dot
   (`format-all .`, `format-all .r`); `none` = no argument = the absolute cwd. *)
Roots == { [arg |-> "none", dir |-> "w",       dot |-> FALSE],
           [arg |-> ".",    dir |-> "w",       dot |-> TRUE],
           [arg |-> "s",    dir |-> "w/s",     dot |-> FALSE],
           [arg |-> ".r",   dir |-> "w/.r",    dot |-> TRUE],
           [arg |-> "x.typ", dir |-> "w/x.typ", dot |-> FALSE] }
Invocations ==
       {[kind |-> "list", mode |-> m, args |-> a] : m \in Modes, a \in ArgLists}
  \cup {[kind |-> "stdin", mode |-> m, cls |-> c] : m \in {"stdout", "check"}, c \in {"F", "U", "E"}}
  \cup {[kind |-> "noinput", mode |-> "inplace"]}                    \* `-i` without files
  \cup {[kind |-> "all", mode |-> m, root |-> r] : m \in {"inplace", "check"}, r \in Roots}

VARIABLES fs,      \* [Slots -> [cls, ver]]; ver counts write-opens (the mtime abstraction)
          fs0,     \* the file system before the first run (history)
          fs1,     \* the file system after the first run (history, for SecondRunNoop)
          inv, pc, run,
          todo,    \* list mode: the arguments still to process
          walk,    \* format-all: entries (dirs and slots) still to visit
          visited, \* format-all: slots that were read (history, for Isolation)
          status, errors,
          out,     \* what was printed to stdout, in order: <<path, "fmt" | "orig">>
          exit
vars == <<fs, fs0, fs1, inv, pc, run, todo, walk, visited, status, errors, out, exit>>

Check   == inv.mode = "check"
Inplace == inv.mode = "inplace"
ToStdout == inv.mode = "stdout"

NoInv == [kind |-> "none", mode |-> "none"]

Init == /\ \E P \in SUBSET Slots :
             /\ Cardinality(P) <= MaxPresent
             /\ \E g \in [P -> Classes \ {"A"}] :
                  /\ \A x \in P : (g[x] = "L") <=> (x = LinkSlot)              \* that slot is a link, nothing else is
                  /\ LinkSlot \in P => LinkTarget \in P                      \* a link has a target
                  /\ fs = [s \in Slots |-> [cls |-> IF s \in P THEN g[s] ELSE "A", ver |-> 0]]
        /\ fs0 = fs /\ fs1 = fs
        /\ inv = NoInv /\ pc = "start" /\ run = 1
        /\ todo = <<>> /\ walk = {} /\ visited = {}
        /\ status = "Unchanged" /\ errors = 0 /\ out = <<>> /\ exit = 99

Begin(i) ==
  /\ inv' = i
  /\ status' = "Unchanged" /\ errors' = 0 /\ out' = <<>> /\ visited' = {}
  /\ IF i.kind = "noinput" THEN pc' = "done" /\ exit' = 2 /\ todo' = <<>> /\ walk' = {}    \* validate_input
     ELSE /\ exit' = 99 /\ pc' = "run"
          /\ todo' = IF i.kind = "list" THEN i.args ELSE IF i.kind = "stdin" THEN <<"stdin">> ELSE <<>>
          /\ walk' = IF i.kind = "all" THEN {i.root.dir} ELSE {}

Start == pc = "start" /\ \E i \in Invocations : Begin(i) /\ UNCHANGED <<fs, fs0, fs1, run>>

(* How an argument of a file list reads: the class of its content, X for a directory / not UTF-8,
   A for a missing path. *)
ClsOf(p) == IF p = "stdin" THEN inv.cls ELSE IF p \in Slots THEN fs[p].cls ELSE IF p \in Dirs THEN "X" ELSE "A"

(* format_one, called from format_many or for stdin *)
ProcessArg ==
  /\ pc = "run" /\ inv.kind \in {"list", "stdin"} /\ todo # <<>>
  /\ LET p == Head(todo)  c == ClsOf(p) IN
     /\ todo' = Tail(todo)
     /\ IF c \in {"A", "X"}                                                   \* get_input fails
        THEN errors' = errors + 1 /\ UNCHANGED <<fs, status, out>>
        ELSE IF c = "E"                                                       \* FormatResult::Erroneous
        THEN /\ out' = (IF ToStdout THEN Append(out, <<p, "orig">>) ELSE out)
             /\ UNCHANGED <<fs, status, errors>>
        ELSE IF c = "F"                                                       \* FormatResult::Unchanged
        THEN /\ out' = (IF ToStdout THEN Append(out, <<p, "fmt">>) ELSE out)
             /\ UNCHANGED <<fs, status, errors>>
        ELSE /\ status' = "Changed"                                           \* FormatResult::Changed
             /\ fs' = (IF Inplace THEN [fs EXCEPT ![p] = [cls |-> "F", ver |-> @.ver + 1]] ELSE fs)
             /\ out' = (IF ToStdout THEN Append(out, <<p, "fmt">>) ELSE out)
             /\ UNCHANGED errors
  /\ UNCHANGED <<fs0, fs1, inv, pc, run, walk, visited, exit>>

(* One step of the WalkDir iteration of format_all, filter_entry included.  Entries come in no
   particular order (readdir order). *)
IsRoot(e) == e = inv.root.dir
EntryHidden(e) == IF IsRoot(e) THEN inv.root.dot ELSE e \in HiddenName
WalkStep ==
  /\ pc = "run" /\ inv.kind = "all"
  /\ \E e \in (IF DetWalk /\ walk # {} THEN {CHOOSE x \in walk : TRUE} ELSE walk) :
       LET rest == walk \ {e} IN
       IF EntryHidden(e) /\ ~(RootFixed /\ IsRoot(e))
       THEN /\ walk' = rest /\ UNCHANGED <<fs, status, errors, visited>>        \* pruned, not descended into
       ELSE IF e \in Dirs
       THEN /\ walk' = rest \cup Children(e) /\ UNCHANGED <<fs, status, errors, visited>>
       ELSE IF e \notin TypExt \/ fs[e].cls = "A" \/ (fs[e].cls = "L" /\ ~LinkFollowed)
       THEN /\ walk' = rest /\ UNCHANGED <<fs, status, errors, visited>>        \* not a regular *.typ file / no such file
       ELSE IF fs[e].cls = "L"                                                  \* (as mutated) read and written through the link
       THEN /\ walk' = rest /\ visited' = visited \cup {e}
            /\ IF fs[LinkTarget].cls = "X" THEN errors' = errors + 1 /\ UNCHANGED <<fs, status>>
               ELSE IF fs[LinkTarget].cls \in {"E", "F"} THEN UNCHANGED <<fs, status, errors>>
               ELSE /\ status' = "Changed"
                    /\ fs' = (IF Check THEN fs ELSE [fs EXCEPT ![LinkTarget] = [cls |-> "F", ver |-> @.ver + 1]])
                    /\ UNCHANGED errors
       ELSE /\ walk' = rest /\ visited' = visited \cup {e}
            /\ IF fs[e].cls = "X"
               THEN errors' = (IF ReadFailCounted THEN errors + 1 ELSE errors) /\ UNCHANGED <<fs, status>>
               ELSE IF fs[e].cls \in {"E", "F"}
               THEN UNCHANGED <<fs, status, errors>>
               ELSE /\ status' = "Changed"                                      \* class U
                    /\ fs' = (IF Check THEN fs ELSE [fs EXCEPT ![e] = [cls |-> "F", ver |-> @.ver + 1]])
                    /\ UNCHANGED errors
  /\ UNCHANGED <<fs0, fs1, inv, pc, run, todo, out, exit>>

Finish ==
  /\ pc = "run" /\ todo = <<>> /\ walk = {}
  /\ pc' = "done"
  /\ exit' = IF errors > 0 THEN 1 ELSE IF status = "Changed" /\ Check THEN 1 ELSE 0
  /\ fs1' = IF run = 1 THEN fs ELSE fs1
  /\ UNCHANGED <<fs, fs0, inv, run, todo, walk, visited, status, errors, out>>

(* the same command line once more *)
Again == /\ pc = "done" /\ run = 1 /\ inv.kind # "noinput"
         /\ run' = 2 /\ Begin(inv) /\ UNCHANGED <<fs, fs0, fs1>>

Next == Start \/ ProcessArg \/ WalkStep \/ Finish \/ Again
Spec == Init /\ [][Next]_vars

(***************************************************************************)
(* L3 — the contract, in terms of fs0, inv and the observable outcome.     *)
(***************************************************************************)
Named    == IF inv.kind = "list" THEN {inv.args[i] : i \in 1..Len(inv.args)} ELSE {}
Present(f) == fs0[f].cls # "A"
Eligible == IF inv.kind = "list" THEN {f \in Named \cap Slots : Present(f)}
            ELSE IF inv.kind = "all"
            THEN {f \in Slots : Present(f) /\ fs0[f].cls # "L"               \* a regular file, not a symbolic link
                                 /\ Under(inv.root.dir, f) /\ ~HiddenBelow(inv.root.dir, f) /\ f \in TypExt}
            ELSE {}
IoFailure == \/ inv.kind = "list" /\ \E a \in Named : a \notin Slots \/ fs0[a].cls \in {"A", "X"}
             \/ inv.kind = "all" /\ \E f \in Eligible : fs0[f].cls = "X"
Differs   == \/ \E f \in Eligible : fs0[f].cls = "U"
             \/ inv.kind = "stdin" /\ inv.cls = "U"
ShouldWrite(f) == f \in Eligible /\ fs0[f].cls = "U" /\ Inplace

Running == inv.kind \notin {"none", "noinput"}

(* C14 *)
CheckReadOnly == (Running /\ Check) => fs = fs0                                      \* every state
CheckExit     == (Running /\ Check /\ pc = "done" /\ run = 1) => (exit = 1 <=> (Differs \/ IoFailure))
CheckSilent   == (Running /\ Check) => out = <<>>
(* C15 *)
OnlyWhereAllowed == Running => \A f \in Slots : fs[f] # fs0[f] => ShouldWrite(f)     \* every state
WriteExactly  == (Running /\ pc = "done") =>
                   \A f \in Slots : fs[f] = IF ShouldWrite(f) THEN [cls |-> "F", ver |-> 1] ELSE fs0[f]
Reported      == (Running /\ pc = "done" /\ run = 1 /\ IoFailure) => exit # 0
CleanExit     == (Running /\ pc = "done" /\ run = 1 /\ ~Check /\ ~IoFailure) => exit = 0
SecondRunNoop == (Running /\ run = 2) => fs = fs1
(* model-level only (reads are not part of the observable contract; for U and X files the same
   fact is observable through WriteExactly / CheckExit / Reported) *)
Isolation     == (Running /\ pc = "done" /\ inv.kind = "all") => Eligible \subseteq visited
NoInputRejected == (inv.kind = "noinput" /\ pc = "done") => (exit = 2 /\ fs = fs0 /\ out = <<>>)
(* C16, stdout: the readable arguments in order, erroneous ones as they are *)
ExpectedOut ==
  IF ~ToStdout THEN <<>>
  ELSE IF inv.kind = "stdin" THEN <<(<<"stdin", IF inv.cls = "E" THEN "orig" ELSE "fmt">>)>>
  ELSE LET readable == SelectSeq(inv.args, LAMBDA a : a \in Slots /\ fs0[a].cls \in {"F", "U", "E"})
       IN [i \in 1..Len(readable) |-> <<readable[i], IF fs0[readable[i]].cls = "E" THEN "orig" ELSE "fmt">>]
StdoutExact   == (Running /\ pc = "done") => out = ExpectedOut

Contract == /\ CheckReadOnly /\ CheckExit /\ CheckSilent /\ OnlyWhereAllowed /\ WriteExactly /\ Reported
            /\ CleanExit /\ SecondRunNoop /\ NoInputRejected /\ StdoutExact

(* Generator (spec -> implementation): one line per complete first run; the harness materialises the
   file system, runs the real binary with this command line and records what it does. *)
GenScen == (pc = "done" /\ run = 1) =>
             PrintT(<<"SCEN", ToJson([fs0 |-> fs0, inv |-> inv,
                                      pred |-> [exit |-> exit, fs |-> fs, out |-> out]])>>)

TypeOK == /\ pc \in {"start", "run", "done"} /\ run \in {1, 2} /\ exit \in {0, 1, 2, 99}
          /\ status \in {"Unchanged", "Changed"} /\ errors \in Nat
=============================================================================
