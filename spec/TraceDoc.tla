------------------------------- MODULE TraceDoc -------------------------------
(***************************************************************************)
(* Conformance of DocRender.tla with the real renderer (`pretty` 0.12.4)   *)
(* and the real `strip_trailing_whitespace`: every Doc exported from the   *)
(* real formatter (event `doc`: the IR as nested records, and for each     *)
(* width the renderer's own text `raw` and the final result `out`) is      *)
(* rendered by the TLA+ transcription, which must reproduce both texts     *)
(* byte for byte.  A disagreement is MODEL DRIFT of the environment model  *)
(* every L2 design check rests on (reported in the evidence of C11), not a *)
(* property verdict.                                                       *)
(***************************************************************************)
EXTENDS DocRender, FiniteSets, Json, IOUtils
CONSTANT Rels
Rec == ndJsonDeserialize(IOEnv.TRACE)
VARIABLES l, nv, nchk
tvars == <<l, nv, nchk>>

RECURSIVE JoinFrom(_, _, _)
JoinFrom(ls, i, acc) == IF i > Len(ls) THEN acc ELSE JoinFrom(ls, i + 1, acc \o "\n" \o ls[i])
Join(ls) == IF ls = <<>> THEN "" ELSE JoinFrom(ls, 2, ls[1])
(* the final text: every line of the stripped rendering ends with a line feed *)
RECURSIVE Terminated(_, _, _)
Terminated(ls, i, acc) == IF i > Len(ls) THEN acc ELSE Terminated(ls, i + 1, acc \o ls[i] \o "\n")

(* a text atom may hold line feeds (a multi-line string, a node under `@typstyle off`): the renderer treats it as one
   piece of text, `strip_trailing_whitespace` sees its lines one by one *)
RECURSIVE SplitNL(_, _, _, _)
SplitNL(s, i, from, acc) == IF i > Len(s) THEN Append(acc, SubSeq(s, from, Len(s)))
                            ELSE IF SubSeq(s, i, i) = "\n" THEN SplitNL(s, i + 1, i + 1, Append(acc, SubSeq(s, from, i - 1)))
                            ELSE SplitNL(s, i + 1, from, acc)
RECURSIVE Flatten(_, _, _)
Flatten(ls, i, acc) == IF i > Len(ls) THEN acc ELSE Flatten(ls, i + 1, acc \o SplitNL(ls[i], 1, 1, <<>>))
RenderOk(e, r) == Join(Render(e.doc, r.w)) = r.raw
StripOk(e, r)  == Terminated(Strip(Flatten(Render(e.doc, r.w), 1, <<>>)), 1, "") = r.out
Failing(e) == IF e.ev # "doc" THEN {}
              ELSE (IF "RenderConforms" \in Rels /\ \E i \in 1..Len(e.rs) : ~RenderOk(e, e.rs[i]) THEN {"RenderConforms"} ELSE {})
                   \cup (IF "StripConforms" \in Rels /\ \E i \in 1..Len(e.rs) : RenderOk(e, e.rs[i]) /\ ~StripOk(e, e.rs[i])
                         THEN {"StripConforms"} ELSE {})
TInit == l = 1 /\ nv = 0 /\ nchk = 0
TNext == /\ l <= Len(Rec) /\ l' = l + 1
         /\ LET e == Rec[l]  f == Failing(e) IN
            /\ nv' = nv + Cardinality(f) /\ nchk' = nchk + (IF e.ev = "doc" THEN 1 ELSE 0)
            /\ f # {} => \A r \in f : PrintT(<<"VIOL", ToJson([r |-> r, id |-> e.id, sha |-> "", tab |-> e.tab, bl |-> 2, ro |-> FALSE, w |-> 0])>>)
TSpec == TInit /\ [][TNext]_tvars
Done == l = Len(Rec) + 1 => PrintT(<<"DONE", l - 1, nchk, nv>>)
=============================================================================
