---------------------------- MODULE MarkupLayout ----------------------------
(***************************************************************************)
(* L2 — `collect_markup_repr` and `convert_markup_impl`                    *)
(* (crates/typstyle-core/src/pretty/markup.rs): the line collector that    *)
(* splits the children of a Markup node into source lines, the boundary    *)
(* post-pass, and the delimiter table per scope.  Modelled for the scopes  *)
(* ContentBlock (`[...]`) and Document.                                    *)
(*                                                                         *)
(* Child events: [e |-> "txt", txt] (a Text token), [e |-> "code", txt]    *)
(* (`#ident`: a Hash and an Ident child), [e |-> "bc"|"lc", txt],          *)
(* [e |-> "sp"] (Space without line feed), [e |-> "nl", n |-> 1] (Space    *)
(* with a line feed), [e |-> "par", n] (Parbreak with n line feeds).       *)
(***************************************************************************)
EXTENDS DocRender

EmptyLine == [nodes |-> <<>>, breaks |-> 0, mixed |-> FALSE]
R0 == [lines |-> <<>>, cur |-> EmptyLine, start |-> "Nil", end |-> "Nil"]

IsCmtEv(ev) == ev.e \in {"bc", "lc"}

(* one iteration of the loop over the children *)
CollectStep(r, ev) ==
  CASE ev.e = "par" -> [r EXCEPT !.lines = Append(@, [r.cur EXCEPT !.breaks = ev.n]), !.cur = EmptyLine]
    [] ev.e \in {"sp", "nl"} /\ r.cur.nodes = <<>> -> [r EXCEPT !.start = IF ev.e = "nl" THEN "Break" ELSE "SpaceOrBreak"]
    [] ev.e = "nl"  -> [r EXCEPT !.lines = Append(@, [r.cur EXCEPT !.breaks = 1]), !.cur = EmptyLine]
    [] OTHER        -> [r EXCEPT !.cur.nodes = Append(@, ev), !.cur.mixed = @ \/ ev.e = "txt"]
RECURSIVE Collect(_, _, _)
Collect(r, seq, i) == IF i > Len(seq) THEN r ELSE Collect(CollectStep(r, seq[i]), seq, i + 1)

RECURSIVE PopSpaces(_)
PopSpaces(nodes) == IF nodes # <<>> /\ nodes[Len(nodes)].e = "sp" THEN PopSpaces(SubSeq(nodes, 1, Len(nodes) - 1)) ELSE nodes
FirstNonCmt(nodes) == LET ix == {i \in 1..Len(nodes) : ~IsCmtEv(nodes[i])} IN
                      IF ix = {} THEN "none" ELSE nodes[CHOOSE i \in ix : \A j \in ix : i <= j].e
LastNonCmt(nodes) == LET ix == {i \in 1..Len(nodes) : ~IsCmtEv(nodes[i])} IN
                     IF ix = {} THEN "none" ELSE nodes[CHOOSE i \in ix : \A j \in ix : i >= j].e

Repr(seq) ==
  LET r1 == Collect(R0, seq, 1)
      r2 == IF r1.cur.nodes # <<>> THEN [r1 EXCEPT !.lines = Append(@, r1.cur)] ELSE r1
      n == Len(r2.lines)
      \* remove trailing spaces
      r3 == IF n = 0 THEN r2 ELSE
            LET last == r2.lines[n]
                e1 == IF last.breaks > 0 THEN "Break" ELSE r2.end
                b1 == IF last.breaks > 0 THEN last.breaks - 1 ELSE last.breaks
                popped == PopSpaces(last.nodes)
                e2 == IF Len(popped) < Len(last.nodes) THEN "SpaceOrBreak" ELSE e1
            IN [r2 EXCEPT !.lines[n] = [last EXCEPT !.breaks = b1, !.nodes = popped], !.end = e2]
      \* boundaries through comments
      s4 == IF r3.start = "Nil" /\ n > 0
            THEN LET f == r3.lines[1].nodes IN
                 IF FirstNonCmt(f) = "sp" THEN "WeakSpaceOrBreak"
                 ELSE IF FirstNonCmt(f) = "none" /\ f # <<>> THEN "WeakBreak" ELSE "Nil"
            ELSE r3.start
      e4 == IF r3.end = "Nil" /\ n > 0
            THEN LET l == r3.lines[n].nodes IN
                 IF LastNonCmt(l) = "sp" THEN "WeakSpaceOrBreak"
                 ELSE IF LastNonCmt(l) = "none" /\ l # <<>> THEN "WeakBreak" ELSE "Nil"
            ELSE r3.end
  IN [r3 EXCEPT !.start = s4, !.end = e4]

NodeDoc(ev) == CASE "doc" \in DOMAIN ev -> ev.doc                        \* a node with its own Doc (a multi-line comment)
                 [] ev.e = "sp" -> SPACE
                 [] ev.e = "code" -> Cat(T("#"), T(ev.txt))            \* Hash node, then the expression
                 [] OTHER -> T(ev.txt)
RECURSIVE LineDoc(_, _, _)
LineDoc(acc, nodes, i) == IF i > Len(nodes) THEN acc ELSE LineDoc(Cat(acc, NodeDoc(nodes[i])), nodes, i + 1)
RECURSIVE LinesDoc(_, _, _)
LinesDoc(acc, lines, i) ==
  IF i > Len(lines) THEN acc
  ELSE LET a1 == LineDoc(acc, lines[i].nodes, 1)
       IN LinesDoc(IF lines[i].breaks > 0 THEN Cat(a1, Rep(HL, lines[i].breaks)) ELSE a1, lines, i + 1)

(* get_delim *)
Delim(b, scope, sym, hasLB, suppressed) ==
  IF scope \in {"Document", "Item"} THEN (IF b = "Break" THEN HL ELSE NIL)
  ELSE CASE b = "Nil" -> NIL
         [] b = "NilOrBreak" -> IF (~sym /\ ~hasLB) \/ suppressed THEN NIL ELSE LINE_
         [] b \in {"SpaceOrBreak", "WeakSpaceOrBreak"} -> IF (sym /\ ~suppressed) \/ hasLB THEN LINE ELSE SPACE
         [] b \in {"Break", "WeakBreak"} -> HL

MarkupDoc(seq, scope, suppressed) ==
  IF Len(seq) = 1 /\ seq[1].e \in {"sp", "nl"} THEN SPACE                     \* is_only_one_and(children, Space)
  ELSE LET r == Repr(seq)
           hasLB == \E i \in 1..Len(seq) : seq[i].e = "nl" \/ ("ml" \in DOMAIN seq[i] /\ seq[i].ml)
                                     \* is_multiline: a Parbreak does NOT count, a block comment that spans lines does
           sym == r.start # "Nil" /\ r.end # "Nil"
       IN Enclose(LinesDoc(NIL, r.lines, 1), Delim(r.start, scope, sym, hasLB, suppressed),
                  Delim(r.end, scope, sym, hasLB, suppressed))

ContentBlock(seq, unit, suppressed) == Enclose(Group(Nest(unit, MarkupDoc(seq, "ContentBlock", suppressed))), T("["), T("]"))
=============================================================================
