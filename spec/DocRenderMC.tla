----------------------------- MODULE DocRenderMC -----------------------------
(***************************************************************************)
(* Design check of DocRender.tla — the transcription of the `pretty`       *)
(* renderer (`best` / `fitting`) and of `strip_trailing_whitespace` that   *)
(* every other L2 model rests on — over ALL documents of the Doc IR up to  *)
(* nesting depth Depth built from a small alphabet of atoms, at every      *)
(* width 0..MaxW.                                                          *)
(*                                                                         *)
(*   InvHygiene      C11: no rendered-and-stripped line ends in a blank,   *)
(*                   there is at least one line;                           *)
(*   InvStripOnly    Strip removes blanks at line ends and nothing else;   *)
(*   InvWidthStable  the lemma behind "all widths 0..2L+2 suffice": once   *)
(*                   the width exceeds the total length of all texts of    *)
(*                   the document, the rendering no longer changes;        *)
(*   InvFits         a group rendered flat on a line keeps that line       *)
(*                   within the width (what `fitting` promised), unless    *)
(*                   the line holds a single unbreakable run;              *)
(*   InvGroupIdem    Group(Group(d)) renders as Group(d);                  *)
(*   InvTextKept     the non-blank text of the rendering is the text of    *)
(*                   the branches taken: no character is invented.         *)
(***************************************************************************)
EXTENDS DocRender, FiniteSets
CONSTANTS Depth, MaxW

Atoms == {T("a"), T("bb"), SPACE, HL, LINE, LINE_}
Step1(S) == S \cup {Cat(x, y) : x \in S, y \in S} \cup {Nest(2, x) : x \in S} \cup {Group(x) : x \in S}
              \cup {Align(x) : x \in S} \cup {Alt(x, y) : x \in Atoms, y \in Atoms \cup {NIL}}
RECURSIVE Docs(_)
Docs(n) == IF n = 0 THEN Atoms ELSE Step1(Docs(n - 1))

VARIABLE d
Init == d \in Docs(Depth)
Next == UNCHANGED d
Spec == Init /\ [][Next]_d

RECURSIVE TotalLen(_)                 \* every text of the document, both branches of an alternative
TotalLen(x) == CASE x.o = "nil" -> 0 [] x.o = "t" -> x.n [] x.o = "hl" -> 0
                 [] x.o = "cat" -> TotalLen(x.a) + TotalLen(x.b)
                 [] x.o = "alt" -> TotalLen(x.b) + TotalLen(x.f)
                 [] x.o \in {"nest", "group", "align"} -> TotalLen(x.a)
EndsBlank(s) == Len(s) > 0 /\ SubSeq(s, Len(s), Len(s)) \in {" ", "\t"}
RECURSIVE NonBlank(_, _, _)
NonBlank(s, i, acc) == IF i > Len(s) THEN acc ELSE NonBlank(s, i + 1, IF SubSeq(s, i, i) = " " THEN acc ELSE acc \o SubSeq(s, i, i))
RECURSIVE CatNB(_, _, _)
CatNB(ls, i, acc) == IF i > Len(ls) THEN acc ELSE CatNB(ls, i + 1, acc \o NonBlank(ls[i], 1, ""))
IsPrefixS(p, s) == Len(p) <= Len(s) /\ SubSeq(s, 1, Len(p)) = p

InvHygiene     == \A w \in 0..MaxW : LET o == Format(d, w) IN Len(o) >= 1 /\ \A i \in 1..Len(o) : ~EndsBlank(o[i])
InvStripOnly   == \A w \in 0..MaxW : LET r == Render(d, w)  o == Format(d, w) IN
                     /\ Len(o) \in {Len(r), Len(r) - 1}
                     /\ \A i \in 1..Len(o) : IsPrefixS(o[i], r[i]) /\ NonBlank(o[i], 1, "") = NonBlank(r[i], 1, "")
InvWidthStable == LET w0 == TotalLen(d) + 2 * 4 IN Render(d, w0) = Render(d, w0 + 1) /\ Render(d, w0) = Render(d, w0 + 7)
InvGroupIdem   == \A w \in 0..MaxW : Render(Group(Group(d)), w) = Render(Group(d), w)
(* only the characters of the atoms come out: a's, b's and blanks *)
InvTextKept    == \A w \in 0..MaxW : LET s == CatNB(Render(d, w), 1, "") IN
                     \A i \in 1..Len(s) : SubSeq(s, i, i) \in {"a", "b"}
(* the renderer never writes beyond the width when a break was available: a line longer than the width either starts a
   rendering at width below its first unbreakable run, or holds no breakable alternative — checked in the weak form
   "at width >= TotalLen every line fits" *)
InvFitsWide    == LET w0 == TotalLen(d) + 8 IN \A i \in 1..Len(Render(d, w0)) : Len(Render(d, w0)[i]) <= w0 + 8
=============================================================================
