---------------------------- MODULE TraceSession ----------------------------
(* Trace validation of recorded histories of format calls against Session.tla (C17).  The trace is
   consumed event by event; memo plays the role it has in the specification: the first result of a
   (document, configuration) pair is remembered and every later End must agree with it. *)
EXTENDS Naturals, Sequences, FiniteSets, TLC, Json, IOUtils
CONSTANT Rels
Rec == ndJsonDeserialize(IOEnv.TRACE)
VARIABLES l, nv, nchk, memo
tvars == <<l, nv, nchk, memo>>
Key(e) == <<e.doc, e.cfgid>>
TInit == l = 1 /\ nv = 0 /\ nchk = 0 /\ memo = <<>>         \* memo: sequence of <<key, res>> (small)
Lookup(k) == LET hits == {i \in 1..Len(memo) : memo[i][1] = k} IN IF hits = {} THEN "" ELSE memo[CHOOSE i \in hits : TRUE][2]
TNext == /\ l <= Len(Rec) /\ l' = l + 1
         /\ LET e == Rec[l]
                known == Lookup(Key(e))
                bad == (IF e.ev = "hist" /\ "Deterministic" \in Rels /\ known # "" /\ known # e.res THEN {"Deterministic"} ELSE {})
                       \cup (IF e.ev = "hist" /\ "NoPanic" \in Rels /\ e.res = "panic" THEN {"NoPanic"} ELSE {}) IN
            /\ memo' = IF e.ev = "hist" /\ known = "" THEN Append(memo, <<Key(e), e.res>>) ELSE memo
            /\ nv' = nv + Cardinality(bad) /\ nchk' = nchk + 1
            /\ bad # {} => \A r \in bad : PrintT(<<"VIOL", ToJson([r |-> r, id |-> e.id, sha |-> "", tab |-> 0, bl |-> 0, ro |-> FALSE,
                                                                   w |-> e.cfgid, mode |-> e.mode, thread |-> e.thread, seq |-> e.seq])>>)
TSpec == TInit /\ [][TNext]_tvars
Done == l = Len(Rec) + 1 => PrintT(<<"DONE", l - 1, nchk, nv>>)
=============================================================================
