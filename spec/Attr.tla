-------------------------------- MODULE Attr --------------------------------
(***************************************************************************)
(* L2 — `AttrStore::compute_no_format_impl` (crates/typstyle-core/src/      *)
(* attr.rs): which children of a node does a `@typstyle off` directive      *)
(* disable?  One loop over the children with two flags (disable_next,       *)
(* commented); one action per child.                                        *)
(*                                                                         *)
(* Child classes: "doff" a comment containing the directive, "cmt" any      *)
(* other comment, "sp" Space, "hash" Hash, "node" anything else (an         *)
(* expression, a named pair, a delimiter, ...).                             *)
(***************************************************************************)
EXTENDS Naturals, Sequences, FiniteSets, TLC
CONSTANT MaxLen
Classes == {"doff", "cmt", "sp", "hash", "node"}

VARIABLES kids,        \* the children seen so far (environment: any sequence)
          disableNext, commented,
          marked       \* indices of children with is_format_disabled set
vars == <<kids, disableNext, commented, marked>>

Init == kids = <<>> /\ disableNext = FALSE /\ commented = FALSE /\ marked = {}

(* one iteration of the loop *)
Child(c) ==
  /\ Len(kids) < MaxLen
  /\ kids' = Append(kids, c)
  /\ LET i == Len(kids) + 1 IN
     IF c \in {"doff", "cmt"}
     THEN /\ commented' = TRUE
          /\ disableNext' = (disableNext \/ c = "doff")
          /\ marked' = IF c = "doff" THEN marked \cup {i} ELSE marked       \* the directive itself is marked too
     ELSE IF disableNext /\ c \notin {"sp", "hash"}
     THEN /\ marked' = marked \cup {i} /\ disableNext' = FALSE /\ UNCHANGED commented
     ELSE UNCHANGED <<disableNext, commented, marked>>
Next == \E c \in Classes : Child(c)
Spec == Init /\ [][Next]_vars

(***************************************************************************)
(* What C07 needs from this machine.                                       *)
(***************************************************************************)
Trivia == {"doff", "cmt", "sp", "hash"}
(* the first non-trivia child after position j, if any *)
NextNode(j) == LET c == {i \in (j + 1)..Len(kids) : kids[i] \notin Trivia} IN
               IF c = {} THEN 0 ELSE CHOOSE i \in c : \A k \in c : i <= k
Directives == {j \in 1..Len(kids) : kids[j] = "doff"}
(* every directive disables exactly the next node (skipping blanks, hashes and comments) *)
DirectiveHitsNext == \A j \in Directives : NextNode(j) # 0 => NextNode(j) \in marked
(* nothing else is disabled: a marked non-comment child is the next node of some directive *)
NothingElse == \A i \in marked : kids[i] = "doff" \/ \E j \in Directives : NextNode(j) = i
(* has_comment is set iff a comment child was seen *)
CommentedExact == commented <=> \E i \in 1..Len(kids) : kids[i] \in {"doff", "cmt"}
(* the flag is pending exactly while a directive has not met its node yet *)
PendingExact == disableNext <=> \E j \in Directives : NextNode(j) = 0

(* Acceptance of an observation of the real AttrStore: the classes of the children of one node and the set of
   children it marked (exported by the harness) must be what this machine computes. *)
RECURSIVE Run(_, _, _, _)
Run(ks, i, dn, m) == IF i > Len(ks) THEN m
                     ELSE IF ks[i] \in {"doff", "cmt"} THEN Run(ks, i + 1, dn \/ ks[i] = "doff", IF ks[i] = "doff" THEN m \cup {i} ELSE m)
                     ELSE IF dn /\ ks[i] \notin {"sp", "hash"} THEN Run(ks, i + 1, FALSE, m \cup {i})
                     ELSE Run(ks, i + 1, dn, m)
MarkedBySpec(ks) == Run(ks, 1, FALSE, {})
=============================================================================
