------------------------------- MODULE FlowMC -------------------------------
(***************************************************************************)
(* Design check and behaviour generator for FlowLayout.tla + ChainLayout:  *)
(* `#let x9 <trivia> = <trivia> <binary chain>` at the top level of the    *)
(* document (Mode::Markup, so the chain gets optional parentheses).        *)
(* The prefix gaps take blanks and comments; the chain is generated as in  *)
(* ChainMC.                                                                *)
(***************************************************************************)
EXTENDS FlowLayout, ChainLayout, FiniteSets, Json
CONSTANTS MaxLen, MaxOps, MaxCmt, MaxW, Unit, GenOn

VARIABLES pre, seq, phase, needNl, done
vars == <<pre, seq, phase, needNl, done>>

OpdTxt(k) == CASE k = 1 -> "a1" [] k = 2 -> "bb2" [] k = 3 -> "cccc3" [] OTHER -> "d4"
OpTxt(k) == IF k % 2 = 1 THEN "==" ELSE "!="
BcTxt(k) == CASE k = 1 -> "/* c1 */" [] k = 2 -> "/* c2 */" [] OTHER -> "/* c3 */"
LcTxt(k) == CASE k = 1 -> "// c1" [] k = 2 -> "// c2" [] OTHER -> "// c3"
All == pre \o seq
Count(kinds) == Cardinality({i \in 1..Len(All) : All[i].e \in kinds})
LastEv == IF All = <<>> THEN "none" ELSE All[Len(All)].e
LastWs == LastEv \in {"sp", "nl"}

(* phases: "kw" (let emitted), "pat", "eq" — prefix; then the chain: "opd", "op" *)
Init == pre = << [e |-> "kw", txt |-> "let"] >> /\ seq = <<>> /\ phase = "kw" /\ needNl = FALSE /\ done = FALSE
InPrefix == phase \in {"kw", "pat", "eq"}
Room == ~done /\ Len(All) < MaxLen
EmitP(ev, ph, nn) == pre' = Append(pre, ev) /\ phase' = ph /\ needNl' = nn /\ UNCHANGED <<seq, done>>
EmitC(ev, ph, nn) == seq' = Append(seq, ev) /\ phase' = ph /\ needNl' = nn /\ UNCHANGED <<pre, done>>
Emit(ev, ph, nn) == IF InPrefix /\ ph \in {"kw", "pat", "eq"} THEN EmitP(ev, ph, nn) ELSE EmitC(ev, ph, nn)
(* `let` and the pattern are words: they need a blank or a comment between them *)
APat == Room /\ ~needNl /\ phase = "kw" /\ LastEv # "kw" /\ EmitP([e |-> "pat", txt |-> "x9"], "pat", FALSE)
AEq  == Room /\ ~needNl /\ phase = "pat" /\ EmitP([e |-> "eq", txt |-> "="], "eq", FALSE)
AOpd == Room /\ ~needNl /\ phase \in {"eq", "op"} /\ EmitC([e |-> "opd", txt |-> OpdTxt(Count({"opd"}) + 1)], "opd", FALSE)
AOp  == Room /\ ~needNl /\ phase = "opd" /\ Count({"op"}) < MaxOps /\ EmitC([e |-> "op", txt |-> OpTxt(Count({"op"}) + 1)], "op", FALSE)
ASp  == Room /\ ~needNl /\ ~LastWs /\ Emit([e |-> "sp"], phase, FALSE)
(* a line feed inside a let binding is only legal after `=` ... the parser continues the initialiser; within the
   chain it is legal only inside the optional parentheses, which the SOURCE does not have: so no bare line feeds,
   only the one that ends a line comment in the prefix before `=`... which the parser rejects too.  Hence: line
   feeds appear only after line comments, and line comments only in the gap after `=` — nowhere: the grammar of a
   top-level let binding admits block comments and blanks only. *)
ABc  == Room /\ ~needNl /\ Count({"bc"}) < MaxCmt /\ Emit([e |-> "bc", txt |-> BcTxt(Count({"bc"}) + 1)], phase, FALSE)
AFinish == ~done /\ phase = "opd" /\ Count({"op"}) >= 1 /\ seq[Len(seq)].e = "opd"
           /\ done' = TRUE /\ UNCHANGED <<pre, seq, phase, needNl>>
Next == APat \/ AEq \/ AOpd \/ AOp \/ ASp \/ ABc \/ AFinish
Spec == Init /\ [][Next]_vars

(* trivia between `=` and the first operand belongs to the LetBinding node; the chain starts at its first operand *)
FirstOpd == CHOOSE i \in 1..Len(seq) : seq[i].e = "opd" /\ \A j \in 1..(i - 1) : seq[j].e # "opd"
ChainPart == SubSeq(seq, FirstOpd, Len(seq))
GapPart == SubSeq(seq, 1, FirstOpd - 1)
LetSeq == pre \o GapPart \o << [e |-> "init", doc |-> OptionalParen(ChainDoc(ChainPart, Unit), Unit)] >>
Whole == Cat(Cat(T("#"), FlowDoc(LetSeq)), HL)
Out(w) == Format(Whole, w)

StartsAt(s, t, i) == i + Len(t) - 1 <= Len(s) /\ SubSeq(s, i, i + Len(t) - 1) = t
Occurs(s, t) == {i \in 1..Len(s) : StartsAt(s, t, i)}
EndsWithS(s, t) == Len(t) <= Len(s) /\ SubSeq(s, Len(s) - Len(t) + 1, Len(s)) = t
RECURSIVE LTrimPosS(_, _)
LTrimPosS(s, i) == IF i <= Len(s) /\ SubSeq(s, i, i) = " " THEN LTrimPosS(s, i + 1) ELSE i
RECURSIVE Squeeze(_, _, _)
Squeeze(s, i, acc) == IF i > Len(s) THEN acc
                      ELSE LET ch == SubSeq(s, i, i) IN Squeeze(s, i + 1, IF ch \in {" ", "(", ")", "#"} THEN acc ELSE acc \o ch)
RECURSIVE ConcatSq(_, _, _)
ConcatSq(ls, i, acc) == IF i > Len(ls) THEN acc ELSE ConcatSq(ls, i + 1, acc \o Squeeze(ls[i], 1, ""))
Expected == LET toks == SelectSeq(All, LAMBDA ev : ev.e \notin {"sp", "nl"})
                RECURSIVE cat(_, _) cat(i, acc) == IF i > Len(toks) THEN acc ELSE cat(i + 1, acc \o Squeeze(toks[i].txt, 1, ""))
            IN cat(1, "")
InvConservation == done => \A w \in 0..MaxW : ConcatSq(Out(w), 1, "") = Expected
InvNoDoubleBlank == done => \A w \in 0..MaxW : \A i \in 1..Len(Out(w)) :
                              \A p \in Occurs(Out(w)[i], "  ") : p < LTrimPosS(Out(w)[i], 1)
InvIndentUnit   == done => \A w \in 0..MaxW : \A i \in 1..Len(Out(w)) :
                              Out(w)[i] = "" \/ (LTrimPosS(Out(w)[i], 1) - 1) % Unit = 0
InvHygiene      == done => \A w \in 0..MaxW : \A i \in 1..Len(Out(w)) : Out(w)[i] = "" \/ ~EndsWithS(Out(w)[i], " ")
(* BreakSafety (C01 / C04): in Mode::Code a line break is only produced inside the optional parentheses — the
   output has more than one line iff its first line ends with "(" *)
InvBreakSafety  == done => \A w \in 0..MaxW : Len(Out(w)) > 1 <=> EndsWithS(Out(w)[1], "(")
(* DelimBalance: the optional delimiters come in pairs *)
InvDelimBalance == done => \A w \in 0..MaxW : EndsWithS(Out(w)[1], "(") <=> Out(w)[Len(Out(w))] = ")"
Gen == (done /\ GenOn) => PrintT(<<"GEN", ToJson([inst |-> "flow", unit |-> Unit, seq |-> All,
                                                 pred |-> [w \in 0..MaxW |-> Out(w)]])>>)
=============================================================================
