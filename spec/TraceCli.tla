------------------------------ MODULE TraceCli ------------------------------
(***************************************************************************)
(* Trace validation of real runs of the `typstyle` binary against the      *)
(* contract of Cli.tla (C14, C15, C16).                                    *)
(*                                                                         *)
(* Each `cli` event (one process run: command line, file system before and *)
(* after, exit status, stdout, optional syscall trace) is mapped onto the  *)
(* variables of Cli.tla as a `done` state, and the conjuncts of the        *)
(* contract — the very definitions the design check verifies on the L2     *)
(* driver model — are evaluated in that state.  Monitor style: a failing   *)
(* conjunct is reported and the walk continues.                            *)
(***************************************************************************)
EXTENDS Cli, IOUtils, SequencesExt

CONSTANT Conj          \* the contract conjuncts this run decides

Rec == ndJsonDeserialize(IOEnv.TRACE)

VARIABLES l, nv, nchk
tvars == <<vars, l, nv, nchk>>

(* abstraction of an observed file: its class if the bytes are those of before the run, F if they are
   exactly the library's formatted text of the original, "other" otherwise; ver = the mtime changed *)
AbsFile(e, st, f, base) ==
  LET o == st[f] IN
  [cls |-> IF o.eq = "same" THEN e.fs0[f].cls ELSE IF o.eq = "fmt" THEN "F" ELSE "other",
   ver |-> base + (IF o.mtime THEN 1 ELSE 0)]
Fs0Of(e) == [f \in Slots |-> [cls |-> e.fs0[f].cls, ver |-> 0]]
Fs1Of(e) == [f \in Slots |-> AbsFile(e, e.fs1, f, 0)]
FsOf(e)  == IF e.run = 1 THEN Fs1Of(e)
            ELSE [f \in Slots |-> [cls |-> AbsFile(e, e.fs, f, 0).cls,
                                   ver |-> Fs1Of(e)[f].ver + (IF e.fs[f].mtime THEN 1 ELSE 0)]]
InvOf(e) == e.inv

(* C16: stdout is exactly the expected pieces, in order, with the library's bytes *)
Piece(e, x) == IF x[2] = "fmt" THEN e.texts[x[1]].fmt ELSE e.texts[x[1]].orig
StdoutBytesExact(e) ==
  e.stdout = FoldLeft(LAMBDA acc, x : acc \o Piece(e, x), "", ExpectedOut)
(* C14: nothing of any formatted text is printed under --check *)
CheckSilentBytes(e) == Check => {e.stdout_lines[i] : i \in 1..Len(e.stdout_lines)}
                                   \cap {e.fmt_lines[i] : i \in 1..Len(e.fmt_lines)} = {}
(* syscall level (only when the run was traced) *)
SysOps(e, op) == SelectSeq(e.sys, LAMBDA s : s.op = op)
WriteOpensAllowed(e) == ~e.straced \/ \A i \in 1..Len(e.sys) :
                           e.sys[i].op = "wopen" => (~Check /\ e.sys[i].path \in Slots /\ ShouldWrite(e.sys[i].path))
ReadsFollowArgs(e) == (~e.straced \/ inv.kind # "list") \/
                      LET rd == SelectSeq(e.sys, LAMBDA s : s.op = "ropen" /\ s.path \in Named)
                      IN [i \in 1..Len(rd) |-> rd[i].path] = inv.args
NoHiddenReads(e) == (~e.straced \/ inv.kind # "all") \/
                    \A i \in 1..Len(e.sys) : (e.sys[i].op = "ropen" /\ e.sys[i].path \in Slots)
                                               => e.sys[i].path \in Eligible

HoldsC(c, e) ==
  CASE c = "CheckReadOnly" -> CheckReadOnly
    [] c = "CheckExit" -> CheckExit
    [] c = "CheckSilent" -> CheckSilentBytes(e)
    [] c = "OnlyWhereAllowed" -> OnlyWhereAllowed
    [] c = "WriteExactly" -> WriteExactly
    [] c = "Reported" -> Reported
    [] c = "CleanExit" -> CleanExit
    [] c = "SecondRunNoop" -> SecondRunNoop
    [] c = "NoInputRejected" -> NoInputRejected
    [] c = "StdoutExact" -> (Running /\ ToStdout) => StdoutBytesExact(e)
    [] c = "WriteOpensAllowed" -> WriteOpensAllowed(e)
    [] c = "ReadsFollowArgs" -> ReadsFollowArgs(e)
    [] c = "NoHiddenReads" -> NoHiddenReads(e)

Blank == [f \in Slots |-> [cls |-> "A", ver |-> 0]]
TInit == /\ fs = Blank /\ fs0 = Blank /\ fs1 = Blank /\ inv = NoInv /\ pc = "start" /\ run = 1
         /\ todo = <<>> /\ walk = {} /\ visited = {} /\ status = "Unchanged" /\ errors = 0 /\ out = <<>> /\ exit = 99
         /\ l = 1 /\ nv = 0 /\ nchk = 0
(* Step l: judge the state loaded from event l-1 (an ordinary `done` state of Cli.tla, so the contract
   conjuncts are evaluated unprimed, exactly as in the design check), then load event l. *)
Load(e) ==
  /\ fs0' = Fs0Of(e) /\ fs1' = Fs1Of(e) /\ fs' = FsOf(e)
  /\ inv' = InvOf(e) /\ pc' = "done" /\ run' = e.run /\ exit' = e.exit
  /\ todo' = <<>> /\ walk' = {} /\ visited' = {} /\ status' = "Unchanged" /\ errors' = 0 /\ out' = <<>>
Judge ==
  IF l = 1 THEN nv' = nv /\ nchk' = nchk
  ELSE LET e == Rec[l - 1]
           bad == {c \in Conj : ~HoldsC(c, e)} IN
       /\ nv' = nv + Cardinality(bad)
       /\ nchk' = nchk + 1
       /\ bad # {} => \A c \in bad : PrintT(<<"VIOL", ToJson([r |-> c, id |-> e.id, run |-> e.run, argv |-> e.argv,
                                                               sha |-> "", w |-> e.style.c, tab |-> e.style.t])>>)
TNext ==
  /\ l <= Len(Rec) + 1 /\ l' = l + 1
  /\ Judge
  /\ IF l <= Len(Rec) THEN Load(Rec[l]) ELSE UNCHANGED vars
Spec2 == TInit /\ [][TNext]_tvars
Done == l = Len(Rec) + 2 => PrintT(<<"DONE", l - 2, nchk, nv>>)
=============================================================================
