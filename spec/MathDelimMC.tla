----------------------------- MODULE MathDelimMC -----------------------------
(***************************************************************************)
(* L2 — `convert_math_delimited` (math.rs): `( ... )` in an equation.  The *)
(* blank directly after the opening and before the closing delimiter is    *)
(* kept as blank / hard line; the nodes in between are a flow in which the *)
(* Math body is tight and a blank is a blank or — with a line feed — a     *)
(* SOFT line (`line()`).  Composed with the equation call site:            *)
(* `$ (<inner>) $`.                                                        *)
(*                                                                         *)
(* The soft line is the recorded defect G07 (a line feed between two atoms *)
(* becomes a blank when the group fits): `InvLineFeedsKept` is expected to *)
(* FAIL on this model (bin/selftest); the other invariants hold.           *)
(***************************************************************************)
EXTENDS FlowLayout, ListLayout, Json
CONSTANTS MaxLen, MaxCmt, MaxW, Unit, GenOn, Block
VARIABLES seq, needNl, done
vars == <<seq, needNl, done>>

BodyTxt(k) == CASE k = 1 -> "a+b" [] OTHER -> "c"
BcTxt(k) == CASE k = 1 -> "/* c1 */" [] OTHER -> "/* c2 */"
LcTxt(k) == CASE k = 1 -> "// c1" [] OTHER -> "// c2"
Count(kinds) == Cardinality({i \in 1..Len(seq) : seq[i].e \in kinds})
LastE == IF seq = <<>> THEN "none" ELSE seq[Len(seq)].e
LastWs == LastE \in {"sp", "nl"}

Init == seq = <<>> /\ needNl = FALSE /\ done = FALSE
Emit(ev, nn) == seq' = Append(seq, ev) /\ needNl' = nn /\ done' = FALSE
Room == ~done /\ Len(seq) < MaxLen
(* one Math body (the parser puts everything that is not trivia into one Math node); comments around it *)
ABody == Room /\ ~needNl /\ Count({"pat"}) = 0 /\ Emit([e |-> "pat", txt |-> BodyTxt(1)], FALSE)
ASp == Room /\ ~needNl /\ ~LastWs /\ Emit([e |-> "sp"], FALSE)
ANl == Room /\ ~LastWs /\ Emit([e |-> "nl", n |-> 1], FALSE)
ABc == Room /\ ~needNl /\ Count({"bc", "lc"}) < MaxCmt /\ Emit([e |-> "bc", txt |-> BcTxt(Count({"bc", "lc"}) + 1)], FALSE)
ALc == Room /\ ~needNl /\ Count({"bc", "lc"}) < MaxCmt /\ Emit([e |-> "lc", txt |-> LcTxt(Count({"bc", "lc"}) + 1)], TRUE)
AFinish == ~done /\ ~needNl /\ Count({"pat"}) = 1 /\ done' = TRUE /\ UNCHANGED <<seq, needNl>>
Next == ABody \/ ASp \/ ANl \/ ABc \/ ALc \/ AFinish
Spec == Init /\ [][Next]_vars

WsDoc(ev) == IF ev.e = "nl" THEN HL ELSE SPACE
OpenSpace == IF seq # <<>> /\ seq[1].e \in {"sp", "nl"} THEN WsDoc(seq[1]) ELSE NIL
Rest1 == IF seq # <<>> /\ seq[1].e \in {"sp", "nl"} THEN Tail(seq) ELSE seq
CloseSpace == IF Rest1 # <<>> /\ Rest1[Len(Rest1)].e \in {"sp", "nl"} THEN WsDoc(Rest1[Len(Rest1)]) ELSE NIL
InnerSeq == IF Rest1 # <<>> /\ Rest1[Len(Rest1)].e \in {"sp", "nl"} THEN SubSeq(Rest1, 1, Len(Rest1) - 1) ELSE Rest1
DelimStep(f, ev) ==
  LET atLC == f.peekLC
      g == [f EXCEPT !.peekLC = FALSE] IN
  CASE ev.e = "pat" -> PushDoc(g, T(ev.txt), FALSE, FALSE)                            \* FlowItem::tight(convert_math)
    [] ev.e = "sp" -> PushDoc(g, SPACE, FALSE, FALSE)                                 \* FlowItem::tight(space)
    [] ev.e = "nl" /\ ~atLC -> PushDoc(g, LINE, FALSE, FALSE)                         \* FlowItem::tight(line())  <- G07
    [] OTHER -> FlowStep(f, ev)
RECURSIVE DelimRun(_, _, _)
DelimRun(f, sq, i) == IF i > Len(sq) THEN f ELSE DelimRun(DelimStep(f, sq[i]), sq, i + 1)
Body == DelimRun(F0, InnerSeq, 1).doc
DelimDoc == Enclose(Cat(Nest(Unit, Cat(OpenSpace, Body)), CloseSpace), T("("), T(")"))
Multi == \E i \in 1..Len(seq) : seq[i].e = "nl"
EqSeq == IF Block THEN << [e |-> "sp"], [e |-> "item", txt |-> "", doc |-> DelimDoc], [e |-> "sp"] >>
         ELSE << [e |-> "item", txt |-> "", doc |-> DelimDoc] >>                          \* inline: `$(...)$`
EqCfg == IF Block THEN [CfgOf("eq", EqSeq, Unit) EXCEPT !.fold = IF Multi THEN "never" ELSE "fit"]
         ELSE CfgOf("eq", EqSeq, Unit)                                                   \* inline: always fold
Whole == Cat(ListDoc(EqCfg, EqSeq), HL)
Out(w) == Format(Whole, w)

StartsAt(s, t, i) == i + Len(t) - 1 <= Len(s) /\ SubSeq(s, i, i + Len(t) - 1) = t
Occurs(s, t) == {i \in 1..Len(s) : StartsAt(s, t, i)}
EndsWithS(s, t) == Len(t) <= Len(s) /\ SubSeq(s, Len(s) - Len(t) + 1, Len(s)) = t
RECURSIVE Squeeze(_, _, _)
Squeeze(s, i, acc) == IF i > Len(s) THEN acc
                      ELSE LET ch == SubSeq(s, i, i) IN Squeeze(s, i + 1, IF ch \in {" ", "$"} THEN acc ELSE acc \o ch)
RECURSIVE ConcatSq(_, _, _)
ConcatSq(ls, i, acc) == IF i > Len(ls) THEN acc ELSE ConcatSq(ls, i + 1, acc \o Squeeze(ls[i], 1, ""))
Expected == LET toks == SelectSeq(seq, LAMBDA ev : ev.e \notin {"sp", "nl"})
                RECURSIVE cat(_, _) cat(i, acc) == IF i > Len(toks) THEN acc ELSE cat(i + 1, acc \o Squeeze(toks[i].txt, 1, ""))
            IN "(" \o cat(1, "") \o ")"
LineComments == {seq[i].txt : i \in {j \in 1..Len(seq) : seq[j].e = "lc"}}
InvTermination  == done => \A w \in 0..MaxW : \A i \in 1..Len(Out(w)) : \A t \in LineComments :
                              Occurs(Out(w)[i], t) # {} => EndsWithS(Out(w)[i], t)
InvConservation == done => \A w \in 0..MaxW : ConcatSq(Out(w), 1, "") = Expected
InvHygiene      == done => \A w \in 0..MaxW : \A i \in 1..Len(Out(w)) : Out(w)[i] = "" \/ ~EndsWithS(Out(w)[i], " ")
(* C09: every line feed of the source between the delimiters is a line feed in every rendering — FAILS (G07) *)
SrcNl == Cardinality({i \in 1..Len(seq) : seq[i].e = "nl"})
InvLineFeedsKept == done => \A w \in 0..MaxW : Len(Out(w)) >= SrcNl + 1
Gen == (done /\ GenOn) => PrintT(<<"GEN", ToJson([inst |-> "mathdelim", block |-> Block, unit |-> Unit, seq |-> seq,
                                                 pred |-> [w \in 0..MaxW |-> Out(w)]])>>)
=============================================================================
