------------------------------ MODULE CommentMC ------------------------------
(***************************************************************************)
(* L2 — multi-line block comments (crates/typstyle-core/src/pretty/        *)
(* comment.rs): `get_comment_style`, `get_follow_leading`,                 *)
(* `align_multiline` (plain style: the continuation lines are shifted      *)
(* together, by their common leading blanks, to the column of the `/*`)    *)
(* and `align_multiline_simple` (bullet style: every continuation line     *)
(* starts with `*` and is put one column right of the `/*`).               *)
(*                                                                         *)
(* A comment is `/* c0` followed by 1..MaxLines continuation lines, each   *)
(* `lead` blanks and a body from Bodies; the last one closes the comment.  *)
(* It sits in a content block, after a word (`#f[w1 <comment>]`), before a *)
(* word, or between two — so that the column of the `/*` differs from the  *)
(* source column and from the indentation in effect.                       *)
(*                                                                         *)
(* AsFound (empty in every check; bin/selftest):                           *)
(*   "S03A"  get_follow_leading ignores whitespace-only lines only when    *)
(*           they are EMPTY after trimming (seeded change C03-A): the      *)
(*           model-level convergence invariant fails.                      *)
(*   "F29"   the code as found before fix F29: a line holding only a tab   *)
(*           (body "\t" — put it into MidBodies) counts with the position  *)
(*           of the tab; it is stripped from the output and the next run   *)
(*           shifts the comment: InvConvergence fails.                     *)
(***************************************************************************)
EXTENDS MarkupLayout, FiniteSets, Json
CONSTANTS MaxLines, Leads, MidBodies, EndBodies, Places, MaxW, Unit, GenOn, AsFoundC

VARIABLES lines, place, done
vars == <<lines, place, done>>

Init == lines = <<>> /\ place \in Places /\ done = FALSE
(* a continuation line; the last one closes the comment *)
AMid == ~done /\ Len(lines) < MaxLines - 1 /\ \E l \in Leads, b \in MidBodies :
           lines' = Append(lines, [lead |-> l, body |-> b]) /\ UNCHANGED <<place, done>>
AEnd == ~done /\ \E l \in Leads, b \in EndBodies :
           lines' = Append(lines, [lead |-> l, body |-> b]) /\ done' = TRUE /\ UNCHANGED place
Next == AMid \/ AEnd
Spec == Init /\ [][Next]_vars

First == "/* c0"
LineTxt(x) == Spaces(x.lead) \o x.body
SrcLines(ls) == <<First>> \o [i \in 1..Len(ls) |-> LineTxt(ls[i])]

(* get_comment_style: bullet iff every continuation line, left-trimmed, starts with `*` *)
StartsStar(b) == Len(b) >= 1 /\ SubSeq(b, 1, 1) = "*"
Bullet(ls) == \A i \in 1..Len(ls) : StartsStar(ls[i].body)
(* get_follow_leading: the minimum over the continuation lines of the position of the first non-blank character;
   a line of blanks only does not count *)
BIG == 1000000
WsOnly(b) == b \in {"", "\t"}                     \* a line of white space only (blanks, a tab) does not count
FirstNonBlank(x) == IF x.body = "" THEN (IF "S03A" \in AsFoundC /\ x.lead > 0 THEN x.lead ELSE BIG)
                    ELSE IF x.body = "\t" THEN (IF "F29" \in AsFoundC THEN x.lead ELSE BIG)
                    ELSE x.lead
MinOf(S) == CHOOSE m \in S : \A k \in S : m <= k
Leading(ls) == MinOf({FirstNonBlank(ls[i]) : i \in 1..Len(ls)})
(* align_multiline *)
PlainDoc(ls) ==
  LET lead == Leading(ls)
      RECURSIVE go(_, _)
      go(i, acc) == IF i > Len(ls) THEN acc
                    ELSE LET t == LineTxt(ls[i])
                         IN go(i + 1, Cat(Cat(acc, HL), IF Len(t) > lead THEN T(SubSeq(t, lead + 1, Len(t))) ELSE NIL))
  IN Align(go(1, T(First)))
(* align_multiline_simple *)
BulletDoc(ls) ==
  LET RECURSIVE go(_, _)
      go(i, acc) == IF i > Len(ls) THEN acc ELSE go(i + 1, Cat(Cat(acc, HL), T(ls[i].body)))
  IN Hang(1, go(1, T(First)))
CommentDoc(ls) == IF Bullet(ls) THEN BulletDoc(ls) ELSE PlainDoc(ls)

CmtEv(ls) == [e |-> "bc", txt |-> "", doc |-> CommentDoc(ls), ml |-> TRUE]
SeqOf(ls, pl) == CASE pl = "after"  -> << [e |-> "txt", txt |-> "w1"], [e |-> "sp"], CmtEv(ls) >>
                   [] pl = "before" -> << CmtEv(ls), [e |-> "sp"], [e |-> "txt", txt |-> "xx2"] >>
                   [] pl = "mid"    -> << [e |-> "txt", txt |-> "w1"], [e |-> "sp"], CmtEv(ls), [e |-> "sp"], [e |-> "txt", txt |-> "xx2"] >>
                   [] pl = "own"    -> << [e |-> "txt", txt |-> "w1"], [e |-> "nl", n |-> 1], CmtEv(ls), [e |-> "nl", n |-> 1], [e |-> "txt", txt |-> "xx2"] >>
OutOf(ls, pl, w) == Format(Cat(Cat(Cat(T("#"), T("f")), ContentBlock(SeqOf(ls, pl), Unit, FALSE)), HL), w)
Out(w) == OutOf(lines, place, w)

(***************************************************************************)
(* Invariants on the rendered lines                                        *)
(***************************************************************************)
StartsAt(s, t, i) == i + Len(t) - 1 <= Len(s) /\ SubSeq(s, i, i + Len(t) - 1) = t
Occurs(s, t) == {i \in 1..Len(s) : StartsAt(s, t, i)}
EndsWithS(s, t) == Len(t) <= Len(s) /\ SubSeq(s, Len(s) - Len(t) + 1, Len(s)) = t
RECURSIVE LTrimPosS(_, _)
LTrimPosS(s, i) == IF i <= Len(s) /\ SubSeq(s, i, i) = " " THEN LTrimPosS(s, i + 1) ELSE i
LTrimS(s) == SubSeq(s, LTrimPosS(s, 1), Len(s))
(* the comment in the output: from the line that holds `/* c0` to the first line that ends the comment *)
OpenLine(ls) == CHOOSE k \in 1..Len(ls) : Occurs(ls[k], First) # {}
CloseLine(ls) == LET o == OpenLine(ls)
                     c == {k \in (o + 1)..Len(ls) : Occurs(ls[k], "*/") # {}}
                 IN CHOOSE k \in c : \A j \in c : k <= j
(* the text after the `*/` on the closing line (` xx2`, or nothing) is not part of the comment *)
CloseBody(s) == LET t == LTrimS(s)
                    p == CHOOSE q \in Occurs(t, "*/") : \A r \in Occurs(t, "*/") : q <= r
                IN SubSeq(t, 1, p + 1)
OutCont(ls) == LET o == OpenLine(ls)  c == CloseLine(ls) IN
               [i \in 1..(c - o) |-> IF i = c - o THEN [lead |-> LTrimPosS(ls[o + i], 1) - 1, body |-> CloseBody(ls[o + i])]
                                     ELSE IF LTrimS(ls[o + i]) = "" THEN [lead |-> 0, body |-> ""]
                                     ELSE [lead |-> LTrimPosS(ls[o + i], 1) - 1, body |-> LTrimS(ls[o + i])]]
(* C06 at model level: every line of the comment keeps its text (blanks at the ends aside), in order *)
InvTextKept   == done => \A w \in 0..MaxW : LET oc == OutCont(Out(w)) IN
                            /\ Len(oc) = Len(lines)
                            /\ \A i \in 1..Len(lines) : oc[i].body = (IF WsOnly(lines[i].body) THEN "" ELSE lines[i].body)
(* the first line stays where the layout puts it; `/* c0` is followed by nothing on its line *)
InvFirstLine  == done => \A w \in 0..MaxW : EndsWithS(Out(w)[OpenLine(Out(w))], First)
(* plain style: the continuation lines keep their indentation RELATIVE to each other *)
InvRelative   == (done /\ ~Bullet(lines)) => \A w \in 0..MaxW : LET oc == OutCont(Out(w)) IN
                    \A i, j \in 1..Len(lines) : (~WsOnly(lines[i].body) /\ ~WsOnly(lines[j].body)) =>
                        oc[i].lead - oc[j].lead = lines[i].lead - lines[j].lead
(* bullet style: every star is one column right of the slash *)
InvBullet     == (done /\ Bullet(lines)) => \A w \in 0..MaxW : LET o == OpenLine(Out(w))  oc == OutCont(Out(w))
                                                                  col == (CHOOSE q \in Occurs(Out(w)[o], First) : TRUE) - 1 IN
                    \A i \in 1..Len(lines) : oc[i].lead = col + 1
InvHygiene    == done => \A w \in 0..MaxW : \A i \in 1..Len(Out(w)) : Out(w)[i] = "" \/ ~EndsWithS(Out(w)[i], " ")
(* C03 at model level: the comment of the output, laid out again in the same place at the same width *)
InvConvergence == done => \A w \in 0..MaxW : OutOf(OutCont(Out(w)), place, w) = Out(w)

(* cfg of bin/selftest: `MidBodies <- MidBodiesTab` (a tab cannot be written in a cfg file) *)
MidBodiesTab == {"c1", "\t", ""}

Gen == (done /\ GenOn) => PrintT(<<"GEN", ToJson([inst |-> "comment", unit |-> Unit, place |-> place,
                                                 src |-> SrcLines(lines),
                                                 pred |-> [w \in 0..MaxW |-> Out(w)]])>>)
=============================================================================
