------------------------------ MODULE Pipeline ------------------------------
(***************************************************************************)
(* One library call as a process (DESIGN.md §2.2, C05 / C17).              *)
(*                                                                         *)
(* pc walks through the phases of `Typstyle::format_source_inspect`:       *)
(* parse, (refuse | attributes, conversion, rendering, stripping), return. *)
(* Every variable belongs to the call: the module has NO variable shared   *)
(* between calls — the formal content of C17.  There is no action for a    *)
(* panic, an abort or a time-out: such an observation matches no step.     *)
(***************************************************************************)
EXTENDS Naturals, Sequences

VARIABLES pc,       \* phase of the call
          erroneous, \* the parser's verdict on the source (environment)
          res,      \* "none" | "Ok" | "Err"
          wrapper   \* result of the width-only convenience wrapper: "none" | "fmt" | "src"
vars == <<pc, erroneous, res, wrapper>>

Phases == {"idle", "parsed", "attributed", "converted", "rendered", "stripped", "done"}

(* The transition structure, shared by Next and by trace acceptance: the phases that may follow pc. *)
Succ(p, err) ==
  CASE p = "idle"       -> {"parsed"}
    [] p = "parsed"     -> IF err THEN {"done"} ELSE {"attributed"}      \* Reject | ComputeAttrs
    [] p = "attributed" -> {"converted"}
    [] p = "converted"  -> {"rendered"}
    [] p = "rendered"   -> {"stripped"}
    [] p = "stripped"   -> {"done"}
    [] p = "done"       -> {}

Init == pc = "idle" /\ erroneous \in BOOLEAN /\ res = "none" /\ wrapper = "none"

Step == /\ pc # "done"
        /\ \E q \in Succ(pc, erroneous) :
             /\ pc' = q
             /\ res' = IF q = "done" THEN (IF erroneous THEN "Err" ELSE "Ok") ELSE res
             /\ wrapper' = IF q = "done" THEN (IF erroneous THEN "src" ELSE "fmt") ELSE wrapper
        /\ UNCHANGED erroneous
Next == Step
Spec == Init /\ [][Next]_vars /\ WF_vars(Step)

TypeOK == pc \in Phases /\ res \in {"none", "Ok", "Err"} /\ wrapper \in {"none", "fmt", "src"}
(* C05: refuses exactly the erroneous inputs, and then the wrapper hands the source back *)
RefusalExact == pc = "done" => ((res = "Err") <=> erroneous)
WrapperContract == pc = "done" => ((wrapper = "src") <=> erroneous)
Terminates == <>(pc = "done")

(* Trace acceptance: `ps` is the sequence of phase names logged by hook H2 for one call of the real
   code; it must be a path of Succ from "idle", and it must be complete (the call returned). *)
RECURSIVE Walk(_, _, _, _)
Walk(p, ps, i, err) == IF i > Len(ps) THEN "done" \in Succ(p, err)
                       ELSE ps[i] \in Succ(p, err) /\ Walk(ps[i], ps, i + 1, err)
AcceptsPhases(ps, err) == Walk("idle", ps, 1, err)
=============================================================================
