------------------------------- MODULE RangeMC -------------------------------
(***************************************************************************)
(* L2 — range formatting, the part that chooses WHAT is formatted          *)
(* (crates/typstyle-core/src/partial.rs, utils.rs):                        *)
(*                                                                         *)
(*   Clamp      the requested byte range is clamped to the text;           *)
(*   Trim       `trim_range`: blanks at both ends of the range are cut;    *)
(*   Cover      `get_node_cover_range_impl`: depth first, children before  *)
(*              their parent — the first node that covers the range and is *)
(*              a Markup / Expr / Pattern;                                 *)
(*   Refuse     an erroneous node is not formatted.                        *)
(*                                                                         *)
(* A document is a text over {blank, other} of length TextLen and a syntax     *)
(* tree given in pre-order: every node has a byte interval [a, b), a flag  *)
(* `ok` (it is a Markup / Expr / Pattern) and a flag `bad` (a syntax error *)
(* sits in it — inherited by every ancestor).  TLC builds every tree of up *)
(* to MaxNodes nodes (a node and its only child may have the SAME          *)
(* interval; zero-width nodes are left out), every text, and the           *)
(* invariants quantify over every range start <= end <= TextLen + 2.           *)
(*                                                                         *)
(* TrimFirst = TRUE is the code as found before fix F04 (trim, then clamp):*)
(* `InvNoPanic` fails for every range that ends past the end of the text.  *)
(***************************************************************************)
EXTENDS Integers, Sequences, FiniteSets, TLC
CONSTANTS TextLen, MaxNodes, TrimFirst

VARIABLES nodes,   \* pre-order: [a, b, par (index of the parent, 0 for the root), ok, bad]
          text,    \* [1..TextLen -> {"x", " "}]
          done
vars == <<nodes, text, done>>

Root == [a |-> 0, b |-> TextLen, par |-> 0, ok |-> TRUE, bad |-> FALSE]      \* the document's Markup node
Init == nodes = <<Root>> /\ text \in [1..TextLen -> {"x", " "}] /\ done = FALSE

(* the rightmost path of the tree built so far: the nodes a new node may become a child of *)
RECURSIVE PathFrom(_)
PathFrom(i) == IF i = 0 THEN {} ELSE {i} \cup PathFrom(nodes[i].par)
RightPath == PathFrom(Len(nodes))
ChildrenOf(ns, p) == {i \in 1..Len(ns) : ns[i].par = p}
LastChildEnd(p) == LET c == ChildrenOf(nodes, p) IN
                   IF c = {} THEN nodes[p].a ELSE nodes[CHOOSE i \in c : \A j \in c : j <= i].b
(* a new node under p: after p's last child, inside p, not empty; the same interval as p only as p's first child *)
AddNode == /\ ~done /\ Len(nodes) < MaxNodes
           /\ \E p \in RightPath : \E a \in LastChildEnd(p)..nodes[p].b : \E b \in (a + 1)..nodes[p].b :
                \E ok \in BOOLEAN : \E bad \in BOOLEAN :
                  nodes' = Append(nodes, [a |-> a, b |-> b, par |-> p, ok |-> ok, bad |-> bad])
           /\ UNCHANGED <<text, done>>
Finish == ~done /\ done' = TRUE /\ UNCHANGED <<nodes, text>>
Next == AddNode \/ Finish
Spec == Init /\ [][Next]_vars

(***************************************************************************)
(* The code                                                                *)
(***************************************************************************)
Min(x, y) == IF x < y THEN x ELSE y
IsBlank(i) == text[i] = " "                       \* byte i (1-based) of the text
(* trim_range on [s, e): `s[rng].trim_end()` then `trim_start()`; slicing past the end of the text panics *)
RECURSIVE TrimEnd(_, _)
TrimEnd(s, e) == IF e > s /\ IsBlank(e) THEN TrimEnd(s, e - 1) ELSE e          \* [s, e) as positions s+1..e
RECURSIVE TrimStart(_, _)
TrimStart(s, e) == IF s < e /\ IsBlank(s + 1) THEN TrimStart(s + 1, e) ELSE s
Trimmed(s, e) == LET e1 == TrimEnd(s, e) IN [s |-> TrimStart(s, e1), e |-> e1]
(* what format_source_range hands to the search; "panic" when a slice is out of bounds *)
Requested(s, e) ==
  IF TrimFirst
  THEN (IF e > TextLen THEN [panic |-> TRUE, s |-> 0, e |-> 0]
        ELSE LET t == Trimmed(s, e) IN [panic |-> FALSE, s |-> Min(t.s, TextLen), e |-> Min(t.e, TextLen)])
  ELSE LET t == Trimmed(Min(s, TextLen), Min(e, TextLen)) IN [panic |-> FALSE, s |-> t.s, e |-> t.e]

RECURSIVE AncOf(_, _)
AncOf(ns, k) == IF ns[k].par = 0 THEN {} ELSE {ns[k].par} \cup AncOf(ns, ns[k].par)          \* proper ancestors
Erroneous(ns, i) == \E j \in 1..Len(ns) : ns[j].bad /\ (j = i \/ i \in AncOf(ns, j))
Covers(ns, i, r) == ns[i].a <= r.s /\ ns[i].b >= r.e
(* get_node_cover_range_impl: children first, in order; then the node itself *)
RECURSIVE Find(_, _, _)
Find(ns, i, r) ==
  LET cs == ChildrenOf(ns, i)
      hits == {c \in cs : Find(ns, c, r) # 0}
  IN IF hits # {} THEN Find(ns, CHOOSE c \in hits : \A d \in hits : c <= d, r)
     ELSE IF Covers(ns, i, r) /\ ns[i].ok THEN i ELSE 0
(* the result of format_source_range: PANIC, REFUSED, or the index (>= 1) of the node that is formatted *)
PANIC == 0 - 1
REFUSED == 0
Result(s, e) == LET r == Requested(s, e) IN
                IF r.panic THEN PANIC
                ELSE LET n == Find(nodes, 1, r) IN
                     IF n = 0 \/ Erroneous(nodes, n) THEN REFUSED ELSE n

(***************************************************************************)
(* C13 at model level, for every range on the text and past its end        *)
(***************************************************************************)
Ranges == {<<s, e>> \in (0..(TextLen + 2)) \X (0..(TextLen + 2)) : s <= e}
Descendants(i) == {j \in 1..Len(nodes) : j # i /\ i \in PathFrom(j)}
(* the specification's own reading of "the requested range after trimming blanks" *)
Wanted(s, e) == Trimmed(Min(s, TextLen), Min(e, TextLen))
InvNoPanic == done => \A r \in Ranges : Result(r[1], r[2]) # PANIC
(* a returned node lies on node boundaries by construction; it covers the trimmed request and is of a formattable kind *)
InvCover   == done => \A r \in Ranges : LET x == Result(r[1], r[2]) IN
                 x >= 1 => (nodes[x].ok /\ Covers(nodes, x, Wanted(r[1], r[2])))
(* it is an innermost such node: nothing formattable inside it covers the request as well *)
InvInnermost == done => \A r \in Ranges : LET x == Result(r[1], r[2]) IN
                 x >= 1 =>
                    \A d \in Descendants(x) : ~(nodes[d].ok /\ Covers(nodes, d, Wanted(r[1], r[2])))
(* refusal exactly when the innermost covering formattable node has a syntax error inside (the root always covers) *)
InvRefuse  == done => \A r \in Ranges : LET x == Result(r[1], r[2])  n == Find(nodes, 1, Wanted(r[1], r[2])) IN
                 x # PANIC => ((x = REFUSED) <=> (n = 0 \/ Erroneous(nodes, n)))
(* the trimmed request never grows and stays inside the text *)
InvTrim    == done => \A r \in Ranges : LET w == Wanted(r[1], r[2]) IN
                 w.s <= w.e /\ w.e <= TextLen /\ Min(r[1], TextLen) <= w.s /\ w.e <= Min(r[2], TextLen)
                 /\ (w.s < w.e => (~IsBlank(w.s + 1) /\ ~IsBlank(w.e)))
=============================================================================
