------------------------------ MODULE TraceAttr ------------------------------
(* Conformance of the real AttrStore with Attr.tla: for every node with a comment child, the set of children the
   code marked as format-disabled must be the set the specification's machine marks, and has_comment must agree.
   A disagreement is MODEL DRIFT (reported in the evidence of C07), not a property verdict. *)
EXTENDS Attr, Json, IOUtils
CONSTANT Rels
Rec == ndJsonDeserialize(IOEnv.TRACE)
VARIABLES l, nv, nchk
tvars == <<l, nv, nchk, vars>>
NodeOk(n) == MarkedBySpec(n.kids) = {n.marked[i] : i \in 1..Len(n.marked)} /\ n.commented
Failing(e) == IF e.ev = "attr" /\ "AttrConforms" \in Rels /\ \E i \in 1..Len(e.nodes) : ~NodeOk(e.nodes[i])
              THEN {"AttrConforms"} ELSE {}
TInit == l = 1 /\ nv = 0 /\ nchk = 0 /\ Init
TNext == /\ l <= Len(Rec) /\ l' = l + 1 /\ UNCHANGED vars
         /\ LET e == Rec[l]  f == Failing(e) IN
            /\ nv' = nv + Cardinality(f) /\ nchk' = nchk + (IF e.ev = "attr" THEN 1 ELSE 0)
            /\ f # {} => \A r \in f : PrintT(<<"VIOL", ToJson([r |-> r, id |-> e.id, sha |-> e.sha, tab |-> 2, bl |-> 2, ro |-> FALSE, w |-> 0])>>)
TSpec == TInit /\ [][TNext]_tvars
Done == l = Len(Rec) + 1 => PrintT(<<"DONE", l - 1, nchk, nv>>)
=============================================================================
