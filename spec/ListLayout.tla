----------------------------- MODULE ListLayout -----------------------------
(***************************************************************************)
(* L2 — `ListStylist` (crates/typstyle-core/src/pretty/layout/list.rs):    *)
(* the state machine that consumes the child tokens of a list-like node    *)
(* (array, dict, arguments, parameters, destructuring, parenthesized,      *)
(* code block, import items, equation) and `print_doc`, which turns the    *)
(* collected items into a Doc in one of three layouts (Never / Always /    *)
(* Fit).  One operator per code path; the style records are the constant   *)
(* tables the call sites pass.                                             *)
(*                                                                         *)
(* Child events: [e |-> "item", txt], [e |-> "bc", txt] (block comment),   *)
(* [e |-> "lc", txt] (line comment), [e |-> "comma"], [e |-> "sp"] (blank  *)
(* without line feed), [e |-> "nl", n |-> k] (whitespace with exactly k    *)
(* line feeds).                                                            *)
(***************************************************************************)
EXTENDS DocRender, FiniteSets

(* The code as found before the `fix:` commits, selectable per defect (DESIGN.md §8.1).  Empty in every check;
   bin/selftest overrides it (cfg: `AsFound <- ...`) to show that each design invariant is able to fail. *)
AsFound == {}

DefaultStyle == [sep |-> ",", d0 |-> "(", d1 |-> ")", tight |-> FALSE, delimSpace |-> FALSE, trailSingle |-> FALSE,
                 trailAlways |-> FALSE, noTrailSep |-> FALSE, omitSingle |-> FALSE, omitFlat |-> FALSE,
                 omitEmpty |-> FALSE, noIndent |-> FALSE]

(* cfg: [fold, noFront, noDetach, keep (-1 = none), alwaysIf, sty, unit] *)
St0(c) == [canAttach |-> FALSE, free |-> <<>>, lastFreeLC |-> FALSE, items |-> <<>>, real |-> 0,
           hasCmt |-> FALSE, hasLine |-> FALSE, fold |-> c.fold]

LastIsItem(st) == st.items # <<>> /\ st.items[Len(st.items)].t = "item"

(* detach_comments *)
Detach(st) == [st EXCEPT !.items = @ \o [i \in 1..Len(st.free) |-> [t |-> "cmt", doc |-> st.free[i]]], !.free = <<>>]
(* try_attach_comments *)
CanTry(st) == st.canAttach /\ st.free # <<>> /\ LastIsItem(st)
Attach(st) == LET n == Len(st.items)
                  added == Cat(SPACE, Inter(st.free, SPACE)) IN
              [st EXCEPT !.items[n].after = Cat(@, added), !.items[n].endsLC = st.lastFreeLC, !.free = <<>>]
AttachOrDetach(st) == IF CanTry(st) THEN Attach(st) ELSE Detach(st)

(* add_item *)
AddItem(c, st, body) ==
  LET s1 == IF c.noFront THEN Detach(st) ELSE st
      before == IF c.noFront \/ st.free = <<>> THEN NIL
                ELSE LET sep == IF c.noDetach THEN SPACE ELSE LINE
                         d == Cat(Inter(st.free, sep), sep)
                     IN IF c.noDetach THEN d ELSE Group(d)
  IN [s1 EXCEPT !.items = Append(@, [t |-> "item", body |-> Cat(before, body), after |-> NIL, endsLC |-> FALSE]),
                !.free = <<>>, !.real = @ + 1, !.canAttach = TRUE]

(* process_trivia, one arm per token kind *)
Step(c, st, ev) ==
  CASE ev.e = "item" -> AddItem(c, st, IF "doc" \in DOMAIN ev THEN ev.doc ELSE T(ev.txt))     \* an item is any Doc
    [] ev.e \in {"bc", "lc"} ->
         [st EXCEPT !.hasCmt = TRUE, !.hasLine = @ \/ ev.e = "lc",
                    !.fold = IF ev.e = "lc" THEN "never" ELSE @,
                    !.lastFreeLC = ev.e = "lc", !.free = Append(@, T(ev.txt))]
    [] ev.e = "comma" -> IF CanTry(st) THEN Attach(st) ELSE st
    [] ev.e = "sp" -> st
    [] ev.e = "nl" ->
         LET s1 == [AttachOrDetach(st) EXCEPT !.canAttach = FALSE]
             k == IF ev.n - 1 < c.keep THEN ev.n - 1 ELSE c.keep
             m == Len(s1.items)
         IN IF c.keep >= 0 /\ ev.n >= 2 /\ s1.items # <<>>
            THEN IF s1.items[m].t = "lb" /\ "F20" \notin AsFound     \* blank lines before and after a separator do not add up
                 THEN [s1 EXCEPT !.items[m].n = IF @ > k THEN @ ELSE k]
                 ELSE [s1 EXCEPT !.items = Append(@, [t |-> "lb", n |-> k])]
            ELSE s1

RECURSIVE Process(_, _, _, _)
Process(c, st, seq, i) == IF i > Len(seq) THEN st ELSE Process(c, Step(c, st, seq[i]), seq, i + 1)

RECURSIVE DropTrailingLb(_)
DropTrailingLb(items) == IF items # <<>> /\ items[Len(items)].t = "lb" THEN DropTrailingLb(SubSeq(items, 1, Len(items) - 1))
                         ELSE items
(* process_windup, then always_fold_if *)
Windup(c, st) == LET s1 == AttachOrDetach(st)
                     s2 == [s1 EXCEPT !.items = DropTrailingLb(@)]
                 IN IF c.alwaysIf /\ ~s2.hasCmt THEN [s2 EXCEPT !.fold = "always"] ELSE s2

RealUpTo(st, i) == Cardinality({j \in 1..i : st.items[j].t = "item"})

RECURSIVE FoldItems(_, _, _, _)
FoldItems(acc, st, f(_, _, _), i) == IF i > Len(st.items) THEN acc ELSE FoldItems(f(acc, st.items[i], i), st, f, i + 1)

(* print_doc *)
PrintDoc(c, st) ==
  LET sty == c.sty  sep == T(sty.sep)  d0 == T(sty.d0)  d1 == T(sty.d1)
      n == Len(st.items)  single == st.real = 1
      fold == IF st.hasLine THEN "never" ELSE st.fold
      wantTrail == sty.trailAlways \/ (single /\ sty.trailSingle)
      nest(d) == IF sty.noIndent THEN d ELSE Nest(c.unit, d)
      never(acc, x, i) ==
        CASE x.t = "cmt"  -> Cat(acc, Cat(x.doc, HL))
          [] x.t = "item" -> LET lastReal == RealUpTo(st, i) = st.real
                                 a1 == Cat(acc, x.body)
                                 a2 == IF sty.noTrailSep /\ lastReal THEN a1 ELSE Cat(a1, sep)
                                 a3 == Cat(a2, x.after)
                             IN IF ~sty.tight \/ i # n \/ (x.endsLC /\ "F09a" \notin AsFound) THEN Cat(a3, HL) ELSE a3
          [] x.t = "lb"   -> Cat(acc, Rep(HL, x.n))
      always(acc, x, i) ==
        LET first == \A j \in 1..(i - 1) : st.items[j].t = "lb"
            lead == IF x.t # "lb" /\ ~first THEN Cat(acc, SPACE) ELSE acc IN
        IF "F10" \in AsFound                                     \* as found: the blank went AFTER a detached comment
        THEN CASE x.t = "cmt"  -> Cat(acc, IF i = n /\ sty.tight THEN x.doc ELSE Cat(x.doc, SPACE))
               [] x.t = "item" -> LET lastReal == RealUpTo(st, i) = st.real
                                      a1 == Cat(acc, Cat(x.body, x.after))
                                  IN IF ~lastReal THEN Cat(a1, Cat(sep, SPACE)) ELSE IF wantTrail THEN Cat(a1, sep) ELSE a1
               [] x.t = "lb"   -> acc
        ELSE
        CASE x.t = "cmt"  -> Cat(lead, x.doc)
          [] x.t = "item" -> LET lastReal == RealUpTo(st, i) = st.real
                                 a1 == Cat(lead, Cat(x.body, x.after))
                             IN IF ~lastReal THEN Cat(a1, sep) ELSE IF wantTrail THEN Cat(a1, sep) ELSE a1
          [] x.t = "lb"   -> acc
      fit(acc, x, i) ==
        CASE x.t = "cmt"  -> Cat(acc, IF i = n /\ sty.tight THEN x.doc ELSE Cat(x.doc, HL))
          [] x.t = "item" -> LET lastReal == RealUpTo(st, i) = st.real
                                 keepSep == ~lastReal \/ wantTrail
                                 follow == IF x.after # NIL
                                           THEN Alt(Cat(sep, x.after), IF keepSep THEN Cat(x.after, sep) ELSE x.after)
                                           ELSE IF lastReal /\ sty.tight THEN NIL
                                           ELSE IF keepSep THEN sep ELSE Alt(sep, NIL)
                                 ln == IF ~lastReal THEN LINE ELSE IF sty.tight THEN NIL ELSE LINE_
                             IN Cat(acc, Cat(Cat(x.body, follow), ln))
          [] x.t = "lb"   -> Cat(acc, Rep(IF "F06" \in AsFound THEN LINE ELSE LINE_, x.n))
  IN IF n = 0 THEN (IF sty.omitEmpty THEN NIL ELSE IF sty.delimSpace THEN Cat(Cat(d0, SPACE), d1) ELSE Cat(d0, d1))
     ELSE CASE fold = "never"  -> Enclose(nest(FoldItems(IF sty.tight THEN NIL ELSE HL, st, never, 1)), d0, d1)
            [] fold = "always" -> LET inner == Group(FoldItems(NIL, st, always, 1))
                                  IN IF (single /\ sty.omitSingle) \/ sty.omitFlat THEN inner
                                     ELSE IF sty.delimSpace THEN Enclose(Enclose(inner, SPACE, SPACE), d0, d1)
                                     ELSE Enclose(inner, d0, d1)
            [] fold = "fit"    -> LET inner == nest(FoldItems(IF sty.tight THEN NIL ELSE LINE_, st, fit, 1))
                                  IN IF single /\ sty.omitSingle THEN Group(inner)
                                     ELSE IF sty.omitFlat THEN Group(Enclose(inner, Alt(d0, NIL), Alt(d1, NIL)))
                                     ELSE IF sty.delimSpace
                                          THEN Group(Enclose(inner, Alt(d0, Cat(d0, SPACE)), Alt(d1, Cat(SPACE, d1))))
                                     ELSE Enclose(Group(inner), d0, d1)

ListDoc(c, seq) == PrintDoc(c, Windup(c, Process(c, St0(c), seq, 1)))

(***************************************************************************)
(* What the call sites pass.  `Flavor(seq)`: get_fold_style outside a      *)
(* break-suppressed context — "never" iff the FIRST whitespace child has a *)
(* line feed (is_multiline_flavor), else "fit".                            *)
(***************************************************************************)
IsWsEv(ev) == ev.e \in {"sp", "nl"}
FirstWs(seq) == LET ix == {i \in 1..Len(seq) : IsWsEv(seq[i])} IN
                IF ix = {} THEN "none" ELSE seq[CHOOSE i \in ix : \A j \in ix : i <= j].e
Flavor(seq) == IF FirstWs(seq) = "nl" THEN "never" ELSE "fit"
NItems(seq) == Cardinality({i \in 1..Len(seq) : seq[i].e = "item"})

Instances == {"array", "args", "block", "paren", "dict", "eq"}
(* seq = the children between (and without) the delimiters *)
CfgOf(inst, seq, unit) ==
  LET base == [fold |-> Flavor(seq), noFront |-> FALSE, noDetach |-> FALSE, keep |-> -1, alwaysIf |-> FALSE,
               sty |-> DefaultStyle, unit |-> unit] IN
  CASE inst = "array" -> [base EXCEPT !.sty.trailSingle = TRUE]                           \* convert_array, explicit parens
    [] inst = "dict"  -> base                                                             \* convert_dict (items `k: v`)
    [] inst = "args"  -> [base EXCEPT !.keep = 2]                                         \* convert_parenthesized_args, >= 2 args
    [] inst = "paren" -> [base EXCEPT !.sty.sep = ""]                                     \* convert_parenthesized_impl, can_omit false
    [] inst = "eq"    ->                                                                  \* convert_equation
         LET block == Len(seq) >= 2 /\ IsWsEv(seq[1]) /\ IsWsEv(seq[Len(seq)])               \* Equation::block
             multi == \E i \in 1..Len(seq) : seq[i].e = "nl"                                  \* is_multiline(equation)
             fold == IF ~block THEN "always" ELSE IF multi THEN "never" ELSE "fit"
         IN [base EXCEPT !.fold = fold, !.noDetach = (fold = "always"),
                         !.sty = [DefaultStyle EXCEPT !.sep = "", !.d0 = "$", !.d1 = "$", !.delimSpace = block, !.tight = ~block]]
    [] inst = "block" -> [base EXCEPT !.noFront = TRUE, !.keep = 2,                       \* convert_code_block
                                      !.fold = IF NItems(seq) <= 1 /\ ~\E i \in 1..Len(seq) : seq[i].e \in {"bc", "lc"}
                                               THEN Flavor(seq) ELSE "never",
                                      !.sty = [DefaultStyle EXCEPT !.sep = "", !.d0 = "{", !.d1 = "}", !.delimSpace = TRUE]]
=============================================================================
