------------------------------- MODULE ChainMC -------------------------------
(***************************************************************************)
(* Design check and behaviour generator for ChainLayout.tla: every binary  *)
(* chain  opd (T* op T* opd)+  of up to MaxLen child events with block and *)
(* line comments and line feeds at every gap, embedded as the first item   *)
(* of an array `#(<chain>, z9)` (continued code: no optional parentheses), *)
(* laid out by ChainLayout + ListLayout + DocRender at every width.        *)
(***************************************************************************)
EXTENDS ChainLayout, ListLayout, Json
CONSTANTS MaxLen, MaxOps, MaxCmt, MaxW, Unit, GenOn

VARIABLES seq, phase, needNl, done
vars == <<seq, phase, needNl, done>>

OpdTxt(k) == CASE k = 1 -> "a1" [] k = 2 -> "bb2" [] k = 3 -> "cccc3" [] OTHER -> "d4"
OpTxt(k) == IF k % 2 = 1 THEN "==" ELSE "!="
BcTxt(k) == CASE k = 1 -> "/* c1 */" [] k = 2 -> "/* c2 */" [] OTHER -> "/* c3 */"
LcTxt(k) == CASE k = 1 -> "// c1" [] k = 2 -> "// c2" [] OTHER -> "// c3"
Count(kinds) == Cardinality({i \in 1..Len(seq) : seq[i].e \in kinds})
LastWs == seq # <<>> /\ seq[Len(seq)].e \in {"sp", "nl"}

Init == seq = <<>> /\ phase = "start" /\ needNl = FALSE /\ done = FALSE
Emit(ev, ph, nn) == seq' = Append(seq, ev) /\ phase' = ph /\ needNl' = nn /\ done' = FALSE
Room == ~done /\ Len(seq) < MaxLen
AOpd == Room /\ ~needNl /\ phase \in {"start", "op"} /\ Emit([e |-> "opd", txt |-> OpdTxt(Count({"opd"}) + 1)], "opd", FALSE)
AOp  == Room /\ ~needNl /\ phase = "opd" /\ Count({"op"}) < MaxOps /\ Emit([e |-> "op", txt |-> OpTxt(Count({"op"}) + 1)], "op", FALSE)
ASp  == Room /\ ~needNl /\ ~LastWs /\ phase # "start" /\ Emit([e |-> "sp"], phase, FALSE)
ANl  == Room /\ ~LastWs /\ phase # "start" /\ Emit([e |-> "nl", n |-> 1], phase, FALSE)
ABc  == Room /\ ~needNl /\ phase # "start" /\ Count({"bc", "lc"}) < MaxCmt /\ Emit([e |-> "bc", txt |-> BcTxt(Count({"bc", "lc"}) + 1)], phase, FALSE)
ALc  == Room /\ ~needNl /\ phase # "start" /\ Count({"bc", "lc"}) < MaxCmt /\ Emit([e |-> "lc", txt |-> LcTxt(Count({"bc", "lc"}) + 1)], phase, TRUE)
(* a chain ends with an operand and has at least one operator; trivia after the last operand belongs to the array *)
AFinish == ~done /\ ~needNl /\ phase = "opd" /\ Count({"op"}) >= 1 /\ seq[Len(seq)].e = "opd"
           /\ done' = TRUE /\ UNCHANGED <<seq, phase, needNl>>
Next == AOpd \/ AOp \/ ASp \/ ANl \/ ABc \/ ALc \/ AFinish
Spec == Init /\ [][Next]_vars

ArrSeq == << [e |-> "item", txt |-> "", doc |-> ChainDoc(seq, Unit)], [e |-> "comma"], [e |-> "sp"], [e |-> "item", txt |-> "z9"] >>
(* the array's own flavor looks at its direct children only: its first blank is the one after the comma *)
ArrCfg == [CfgOf("array", ArrSeq, Unit) EXCEPT !.fold = "fit"]
Whole(d) == Cat(Cat(T("#"), d), HL)
Out(w) == Format(Whole(ListDoc(ArrCfg, ArrSeq)), w)

StartsAt(s, t, i) == i + Len(t) - 1 <= Len(s) /\ SubSeq(s, i, i + Len(t) - 1) = t
Occurs(s, t) == {i \in 1..Len(s) : StartsAt(s, t, i)}
EndsWithS(s, t) == Len(t) <= Len(s) /\ SubSeq(s, Len(s) - Len(t) + 1, Len(s)) = t
RECURSIVE LTrimPosS(_, _)
LTrimPosS(s, i) == IF i <= Len(s) /\ SubSeq(s, i, i) = " " THEN LTrimPosS(s, i + 1) ELSE i
RECURSIVE Squeeze(_, _, _)
Squeeze(s, i, acc) == IF i > Len(s) THEN acc
                      ELSE LET ch == SubSeq(s, i, i) IN
                           Squeeze(s, i + 1, IF ch \in {" ", ",", "(", ")", "#"} THEN acc ELSE acc \o ch)
RECURSIVE ConcatSq(_, _, _)
ConcatSq(ls, i, acc) == IF i > Len(ls) THEN acc ELSE ConcatSq(ls, i + 1, acc \o Squeeze(ls[i], 1, ""))
Expected == LET toks == SelectSeq(seq, LAMBDA ev : ev.e \in {"opd", "op", "bc", "lc"})
                RECURSIVE cat(_, _) cat(i, acc) == IF i > Len(toks) THEN acc ELSE cat(i + 1, acc \o Squeeze(toks[i].txt, 1, ""))
            IN cat(1, "") \o "z9"
LineComments == {seq[i].txt : i \in {j \in 1..Len(seq) : seq[j].e = "lc"}}
InvTermination  == done => \A w \in 0..MaxW : \A i \in 1..Len(Out(w)) : \A t \in LineComments :
                              Occurs(Out(w)[i], t) # {} => EndsWithS(Out(w)[i], t)
(* operands, operators (each with its OWN text) and comments come out once and in source order *)
InvConservation == done => \A w \in 0..MaxW : ConcatSq(Out(w), 1, "") = Expected
InvNoDoubleBlank == done => \A w \in 0..MaxW : \A i \in 1..Len(Out(w)) :
                              \A p \in Occurs(Out(w)[i], "  ") : p < LTrimPosS(Out(w)[i], 1)
InvIndentUnit   == done => \A w \in 0..MaxW : \A i \in 1..Len(Out(w)) :
                              Out(w)[i] = "" \/ (LTrimPosS(Out(w)[i], 1) - 1) % Unit = 0
InvHygiene      == done => \A w \in 0..MaxW : \A i \in 1..Len(Out(w)) : Out(w)[i] = "" \/ ~EndsWithS(Out(w)[i], " ")
(* Model-level convergence: the rendered array `#(<chain>, z9)` tokenised back into the chain's child events and
   laid out again at the same width.  The chain is everything between "#(" and the last "," . *)
OpdSet == {OpdTxt(k) : k \in 1..4}
OpSet == {"==", "!="}
CmtB == {BcTxt(k) : k \in 1..3}
CmtL == {LcTxt(k) : k \in 1..3}
TokSet == OpdSet \cup OpSet \cup CmtB \cup CmtL \cup {"#", "(", ")", ",", "z9"}
RECURSIVE LexLine(_, _, _)
LexLine(s, i, acc) ==
  IF i > Len(s) THEN acc
  ELSE IF SubSeq(s, i, i) = " "
       THEN LexLine(s, i + 1, IF acc # <<>> /\ acc[Len(acc)] # " " THEN Append(acc, " ") ELSE acc)
       ELSE LET cand == {t \in TokSet : StartsAt(s, t, i)}
                m == CHOOSE t \in cand : \A u \in cand : Len(u) <= Len(t)
            IN LexLine(s, i + Len(m), Append(acc, m))
TokEvent(t) == IF t = " " THEN [e |-> "sp"]
               ELSE IF t \in OpdSet THEN [e |-> "opd", txt |-> t]
               ELSE IF t \in OpSet THEN [e |-> "op", txt |-> t]
               ELSE IF t \in CmtB THEN [e |-> "bc", txt |-> t]
               ELSE IF t \in CmtL THEN [e |-> "lc", txt |-> t]
               ELSE [e |-> "delim", txt |-> t]
RECURSIVE LexLines(_, _, _, _)
LexLines(ls, k, acc, pend) ==
  IF k > Len(ls) THEN acc
  ELSE LET toks == LexLine(ls[k], 1, <<>>)
           evs == [j \in 1..Len(toks) |-> TokEvent(toks[j])]
       IN IF toks = <<>> THEN LexLines(ls, k + 1, acc, pend + 1)
          ELSE LexLines(ls, k + 1, (IF acc # <<>> /\ pend > 0 THEN Append(acc, [e |-> "nl", n |-> 1]) ELSE acc)
                                   \o (IF evs[1].e = "sp" THEN Tail(evs) ELSE evs), 1)
IsDelim(x, t) == x.e = "delim" /\ x.txt = t
(* Model-level convergence over the WHOLE array (as in DotChainMC): the rendered text is re-lexed, the chain's events
   become one item laid out again, everything else — separator, `z9`, trailing comma, the line feeds of the first pass —
   goes to the array's own stylist with the flavor re-derived from the first white space. *)
RelexArray(ls, w) ==
  LET all == LexLines(ls, 1, <<>>, 0)
      opens == {i \in 1..Len(all) : IsDelim(all[i], "(")}
      open == CHOOSE i \in opens : \A j \in opens : i <= j
      closes == {i \in 1..Len(all) : IsDelim(all[i], ")")}
      close == CHOOSE i \in closes : \A j \in closes : j <= i
      inner == SubSeq(all, open + 1, close - 1)
      opds == {i \in 1..Len(inner) : inner[i].e = "opd"}
      f == CHOOSE i \in opds : \A j \in opds : i <= j
      z == CHOOSE i \in 1..Len(inner) : IsDelim(inner[i], "z9")
      commas == {i \in 1..Len(inner) : IsDelim(inner[i], ",") /\ i < z}
      sep == CHOOSE i \in commas : \A j \in commas : j <= i
      ends == {i \in f..(sep - 1) : inner[i].e = "opd"}
      l == CHOOSE i \in ends : \A j \in ends : j <= i
      map(x) == IF IsDelim(x, ",") THEN [e |-> "comma"] ELSE IF IsDelim(x, "z9") THEN [e |-> "item", txt |-> "z9"] ELSE x
      rest == SubSeq(inner, l + 1, Len(inner))
  IN SubSeq(inner, 1, f - 1) \o << [e |-> "item", txt |-> "", doc |-> ChainDoc(SubSeq(inner, f, l), Unit)] >>
     \o [i \in 1..Len(rest) |-> map(rest[i])]
Out2(w) == LET arr == RelexArray(Out(w), w) IN Format(Whole(ListDoc(CfgOf("array", arr, Unit), arr)), w)
InvConvergence == done => \A w \in 0..MaxW : Out2(w) = Out(w)
ArrayFlat(ls) == \E i \in 1..Len(ls) : Occurs(ls[i], ", z9)") # {}
TrailingTrivia(ls) == FALSE

(* reachability probe for the antecedent of InvConvergence (must be VIOLATED: bin/selftest) *)
ProbeConvergenceVacuous == done => \A w \in 0..MaxW : ~(ArrayFlat(Out(w)) /\ ~TrailingTrivia(Out(w)))

AsFoundF27 == {"F27"}
Gen == (done /\ GenOn) => PrintT(<<"GEN", ToJson([inst |-> "chain", unit |-> Unit, seq |-> seq,
                                                 pred |-> [w \in 0..MaxW |-> Out(w)]])>>)
=============================================================================
