------------------------------- MODULE ChainMC -------------------------------
(***************************************************************************)
(* Design check and behaviour generator for ChainLayout.tla: every binary  *)
(* chain  opd (T* op T* opd)+  of up to MaxLen child events with block and *)
(* line comments and line feeds at every gap, embedded as the first item   *)
(* of an array `#(<chain>, z9)` (continued code: no optional parentheses), *)
(* laid out by ChainLayout + ListLayout + DocRender at every width.        *)
(***************************************************************************)
EXTENDS ChainLayout, ListLayout, Json
CONSTANTS MaxLen, MaxOps, MaxCmt, MaxW, Unit, GenOn

VARIABLES seq, phase, needNl, done
vars == <<seq, phase, needNl, done>>

OpdTxt(k) == CASE k = 1 -> "a1" [] k = 2 -> "bb2" [] k = 3 -> "cccc3" [] OTHER -> "d4"
OpTxt(k) == IF k % 2 = 1 THEN "==" ELSE "!="
BcTxt(k) == CASE k = 1 -> "/* c1 */" [] k = 2 -> "/* c2 */" [] OTHER -> "/* c3 */"
LcTxt(k) == CASE k = 1 -> "// c1" [] k = 2 -> "// c2" [] OTHER -> "// c3"
Count(kinds) == Cardinality({i \in 1..Len(seq) : seq[i].e \in kinds})
LastWs == seq # <<>> /\ seq[Len(seq)].e \in {"sp", "nl"}

Init == seq = <<>> /\ phase = "start" /\ needNl = FALSE /\ done = FALSE
Emit(ev, ph, nn) == seq' = Append(seq, ev) /\ phase' = ph /\ needNl' = nn /\ done' = FALSE
Room == ~done /\ Len(seq) < MaxLen
AOpd == Room /\ ~needNl /\ phase \in {"start", "op"} /\ Emit([e |-> "opd", txt |-> OpdTxt(Count({"opd"}) + 1)], "opd", FALSE)
AOp  == Room /\ ~needNl /\ phase = "opd" /\ Count({"op"}) < MaxOps /\ Emit([e |-> "op", txt |-> OpTxt(Count({"op"}) + 1)], "op", FALSE)
ASp  == Room /\ ~needNl /\ ~LastWs /\ phase # "start" /\ Emit([e |-> "sp"], phase, FALSE)
ANl  == Room /\ ~LastWs /\ phase # "start" /\ Emit([e |-> "nl", n |-> 1], phase, FALSE)
ABc  == Room /\ ~needNl /\ phase # "start" /\ Count({"bc", "lc"}) < MaxCmt /\ Emit([e |-> "bc", txt |-> BcTxt(Count({"bc", "lc"}) + 1)], phase, FALSE)
ALc  == Room /\ ~needNl /\ phase # "start" /\ Count({"bc", "lc"}) < MaxCmt /\ Emit([e |-> "lc", txt |-> LcTxt(Count({"bc", "lc"}) + 1)], phase, TRUE)
(* a chain ends with an operand and has at least one operator; trivia after the last operand belongs to the array *)
AFinish == ~done /\ ~needNl /\ phase = "opd" /\ Count({"op"}) >= 1 /\ seq[Len(seq)].e = "opd"
           /\ done' = TRUE /\ UNCHANGED <<seq, phase, needNl>>
Next == AOpd \/ AOp \/ ASp \/ ANl \/ ABc \/ ALc \/ AFinish
Spec == Init /\ [][Next]_vars

ArrSeq == << [e |-> "item", txt |-> "", doc |-> ChainDoc(seq, Unit)], [e |-> "comma"], [e |-> "sp"], [e |-> "item", txt |-> "z9"] >>
(* the array's own flavor looks at its direct children only: its first blank is the one after the comma *)
ArrCfg == [CfgOf("array", ArrSeq, Unit) EXCEPT !.fold = "fit"]
Whole(d) == Cat(Cat(T("#"), d), HL)
Out(w) == Format(Whole(ListDoc(ArrCfg, ArrSeq)), w)

StartsAt(s, t, i) == i + Len(t) - 1 <= Len(s) /\ SubSeq(s, i, i + Len(t) - 1) = t
Occurs(s, t) == {i \in 1..Len(s) : StartsAt(s, t, i)}
EndsWithS(s, t) == Len(t) <= Len(s) /\ SubSeq(s, Len(s) - Len(t) + 1, Len(s)) = t
RECURSIVE LTrimPosS(_, _)
LTrimPosS(s, i) == IF i <= Len(s) /\ SubSeq(s, i, i) = " " THEN LTrimPosS(s, i + 1) ELSE i
RECURSIVE Squeeze(_, _, _)
Squeeze(s, i, acc) == IF i > Len(s) THEN acc
                      ELSE LET ch == SubSeq(s, i, i) IN
                           Squeeze(s, i + 1, IF ch \in {" ", ",", "(", ")", "#"} THEN acc ELSE acc \o ch)
RECURSIVE ConcatSq(_, _, _)
ConcatSq(ls, i, acc) == IF i > Len(ls) THEN acc ELSE ConcatSq(ls, i + 1, acc \o Squeeze(ls[i], 1, ""))
Expected == LET toks == SelectSeq(seq, LAMBDA ev : ev.e \in {"opd", "op", "bc", "lc"})
                RECURSIVE cat(_, _) cat(i, acc) == IF i > Len(toks) THEN acc ELSE cat(i + 1, acc \o Squeeze(toks[i].txt, 1, ""))
            IN cat(1, "") \o "z9"
LineComments == {seq[i].txt : i \in {j \in 1..Len(seq) : seq[j].e = "lc"}}
InvTermination  == done => \A w \in 0..MaxW : \A i \in 1..Len(Out(w)) : \A t \in LineComments :
                              Occurs(Out(w)[i], t) # {} => EndsWithS(Out(w)[i], t)
(* operands, operators (each with its OWN text) and comments come out once and in source order *)
InvConservation == done => \A w \in 0..MaxW : ConcatSq(Out(w), 1, "") = Expected
InvNoDoubleBlank == done => \A w \in 0..MaxW : \A i \in 1..Len(Out(w)) :
                              \A p \in Occurs(Out(w)[i], "  ") : p < LTrimPosS(Out(w)[i], 1)
InvIndentUnit   == done => \A w \in 0..MaxW : \A i \in 1..Len(Out(w)) :
                              Out(w)[i] = "" \/ (LTrimPosS(Out(w)[i], 1) - 1) % Unit = 0
InvHygiene      == done => \A w \in 0..MaxW : \A i \in 1..Len(Out(w)) : Out(w)[i] = "" \/ ~EndsWithS(Out(w)[i], " ")
Gen == (done /\ GenOn) => PrintT(<<"GEN", ToJson([inst |-> "chain", unit |-> Unit, seq |-> seq,
                                                 pred |-> [w \in 0..MaxW |-> Out(w)]])>>)
=============================================================================
