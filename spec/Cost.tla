-------------------------------- MODULE Cost --------------------------------
(***************************************************************************)
(* C18 — conversion as a recursive process over an abstract syntax tree    *)
(* with a visit counter per node.                                          *)
(*                                                                         *)
(* The tree is a complete tree of the given depth and branching factor     *)
(* (nodes are sequences of child indices).  Convert(n) converts node n     *)
(* once and schedules each child once: the shape of every convert_* entry  *)
(* point.  The anti-pattern `TryThenFallback` (convert the children,       *)
(* discard the result, convert them again — what a "try the compact        *)
(* layout first" implementation does) is included behind a constant so     *)
(* that TLC can show the invariant is not vacuous: with it enabled the     *)
(* count doubles per level and BoundedVisits fails at depth 3.             *)
(***************************************************************************)
EXTENDS Naturals, Sequences, FiniteSets, TLC
CONSTANTS Depth, Branch, B, AntiPattern

RECURSIVE NodesAt(_)
NodesAt(d) == IF d = 0 THEN {<<>>} ELSE {Append(p, i) : p \in NodesAt(d - 1), i \in 1..Branch}
Nodes == UNION {NodesAt(d) : d \in 0..Depth}
Kids(n) == IF Len(n) < Depth THEN {Append(n, i) : i \in 1..Branch} ELSE {}

VARIABLES visits,   \* [Nodes -> Nat]
          todo      \* bag of pending conversions: [Nodes -> Nat]
vars == <<visits, todo>>

Init == visits = [n \in Nodes |-> 0] /\ todo = [n \in Nodes |-> IF n = <<>> THEN 1 ELSE 0]

Convert(n) ==
  /\ todo[n] > 0
  /\ visits' = [visits EXCEPT ![n] = @ + 1]
  /\ todo' = [m \in Nodes |-> IF m = n THEN todo[m] - 1
                              ELSE IF m \in Kids(n) THEN todo[m] + (IF AntiPattern THEN 2 ELSE 1)
                              ELSE todo[m]]
Next == \E n \in Nodes : Convert(n)
Spec == Init /\ [][Next]_vars

Sum(f) == LET RECURSIVE S(_) S(ns) == IF ns = {} THEN 0 ELSE LET x == CHOOSE x \in ns : TRUE IN f[x] + S(ns \ {x})
          IN S(Nodes)
BoundedVisits == /\ \A n \in Nodes : visits[n] <= B
                 /\ Sum(visits) <= B * Cardinality(Nodes)
(* at the end every node has been converted at least once: the bound is not met by doing nothing *)
Complete == (\A n \in Nodes : todo[n] = 0) => \A n \in Nodes : visits[n] >= 1

(* Acceptance of a visit log of the real code (hook H1): histogram of conversions per node. *)
AcceptsLog(hist, total, nodes) == /\ \A i \in 1..Len(hist) : hist[i].count <= B
                                  /\ total <= B * nodes
=============================================================================
