------------------------------ MODULE TableMC ------------------------------
(***************************************************************************)
(* L2 — the argument list of a `table(..)` / `grid(..)` call (table.rs,    *)
(* func_call.rs `convert_args_impl`).  Three steps of the code, one        *)
(* operator each:                                                          *)
(*                                                                         *)
(*   Formatable  `is_formatable_table`: no comment among the arguments, no *)
(*               spread, named arguments only before positional ones, at   *)
(*               least one positional argument, no table.cell / hline /    *)
(*               vline, and a `columns:` argument that is an integer;      *)
(*   TableDoc    `convert_table`: named arguments one per line, positional *)
(*               arguments in rows of `columns` cells, a header / footer   *)
(*               call closes the row it is in, every cell gets a comma,    *)
(*               a broken row is followed by an empty line;                *)
(*   PlainDoc    `convert_parenthesized_args_as_list` + `PlainStylist`     *)
(*               (layout/plain.rs) for every other table: the source line  *)
(*               structure is kept, commas tight before / spaced after.    *)
(*                                                                         *)
(* The callee of a cell (`table.header`, `table.hline`, ...) is recognised *)
(* by `func_name()`.  With RawName = TRUE this is the callee's SOURCE TEXT *)
(* (as found: `table. header` is not a header — defect F23); with FALSE    *)
(* the trivia inside the callee is ignored (the repaired code).            *)
(*                                                                         *)
(* Environment: every argument child sequence the parser produces for      *)
(* arg (T* comma T* arg)* [comma] with blanks, line feeds, block and line  *)
(* comments, over the argument kinds in ArgKinds, up to MaxArgs arguments  *)
(* and MaxTriv trivia children.  Arguments are atomic (a one-cell header   *)
(* call never breaks: a single content argument folds always).             *)
(***************************************************************************)
EXTENDS FlowLayout, FiniteSets, Json
CONSTANTS ArgKinds, MaxArgs, MaxCells, MaxTriv, MaxCmt, MaxNl, MaxW, Unit, GenOn, RawName
VARIABLES seq, phase, needNl, done
vars == <<seq, phase, needNl, done>>

CellTxt(k) == CASE k = 1 -> "[a]" [] k = 2 -> "[b]" [] k = 3 -> "[c]" [] k = 4 -> "[d]" [] OTHER -> "[e]"
BcTxt(k) == CASE k = 1 -> "/* c1 */" [] OTHER -> "/* c2 */"
LcTxt(k) == CASE k = 1 -> "// c1" [] OTHER -> "// c2"
(* an argument event: `src` as written, `txt` as printed, `k` its kind, `name` what func_name() returns for it *)
Arg(kind, n) ==
  CASE kind = "cols2"  -> [e |-> "arg", k |-> "named", src |-> "columns: 2", txt |-> "columns: 2", cols |-> 2, name |-> ""]
    [] kind = "cols1"  -> [e |-> "arg", k |-> "named", src |-> "columns: 1", txt |-> "columns: 1", cols |-> 1, name |-> ""]
    [] kind = "colsA"  -> [e |-> "arg", k |-> "named", src |-> "columns: auto", txt |-> "columns: auto", cols |-> -1, name |-> ""]
    [] kind = "gutter" -> [e |-> "arg", k |-> "named", src |-> "gutter: 1pt", txt |-> "gutter: 1pt", cols |-> -1, name |-> ""]
    [] kind = "cell"   -> [e |-> "arg", k |-> "pos", src |-> CellTxt(n), txt |-> CellTxt(n), cols |-> -1, name |-> ""]
    [] kind = "hdr"    -> [e |-> "arg", k |-> "pos", src |-> "table.header([h])", txt |-> "table.header([h])", cols |-> -1, name |-> "table.header"]
    [] kind = "hdrS"   -> [e |-> "arg", k |-> "pos", src |-> "table. header([h])", txt |-> "table.header([h])", cols |-> -1,
                           name |-> IF RawName THEN "table. header" ELSE "table.header"]
    [] kind = "ftr"    -> [e |-> "arg", k |-> "pos", src |-> "table.footer([f])", txt |-> "table.footer([f])", cols |-> -1, name |-> "table.footer"]
    [] kind = "hline"  -> [e |-> "arg", k |-> "pos", src |-> "table.hline()", txt |-> "table.hline()", cols |-> -1, name |-> "table.hline"]
    [] kind = "hlineS" -> [e |-> "arg", k |-> "pos", src |-> "table .hline()", txt |-> "table.hline()", cols |-> -1,
                           name |-> IF RawName THEN "table .hline" ELSE "table.hline"]
    [] kind = "spread" -> [e |-> "arg", k |-> "spread", src |-> "..r", txt |-> "..r", cols |-> -1, name |-> ""]
Once == {"cols2", "cols1", "colsA", "gutter", "hdr", "hdrS", "ftr", "hline", "hlineS", "spread"}

IsArg(ev) == ev.e = "arg"
NArgs == Cardinality({i \in 1..Len(seq) : IsArg(seq[i])})
NCells == Cardinality({i \in 1..Len(seq) : IsArg(seq[i]) /\ seq[i].src \in {CellTxt(k) : k \in 1..5}})
NTriv == Cardinality({i \in 1..Len(seq) : seq[i].e \in {"sp", "nl", "bc", "lc"}})
NCm == Cardinality({i \in 1..Len(seq) : seq[i].e \in {"bc", "lc"}})
Used(kind) == \E i \in 1..Len(seq) : IsArg(seq[i]) /\ seq[i].src = Arg(kind, 1).src
LastWs == seq # <<>> /\ seq[Len(seq)].e \in {"sp", "nl"}

Init == seq = <<>> /\ phase = "start" /\ needNl = FALSE /\ done = FALSE
Emit(ev, ph, nn) == seq' = Append(seq, ev) /\ phase' = ph /\ needNl' = nn /\ done' = FALSE
AArg == /\ ~done /\ ~needNl /\ phase \in {"start", "comma"} /\ NArgs < MaxArgs
        /\ \E kind \in ArgKinds :
              /\ kind \in Once => ~Used(kind)
              /\ kind = "cell" => NCells < MaxCells
              /\ Emit(Arg(kind, NCells + 1), "arg", FALSE)
AComma == ~done /\ ~needNl /\ phase = "arg" /\ Emit([e |-> "comma"], "comma", FALSE)
TRoom == ~done /\ NTriv < MaxTriv
ASp == TRoom /\ ~needNl /\ ~LastWs /\ Emit([e |-> "sp"], phase, FALSE)
ANl == TRoom /\ ~LastWs /\ \E k \in 1..MaxNl : Emit([e |-> "nl", n |-> k], phase, FALSE)
ABc == TRoom /\ ~needNl /\ NCm < MaxCmt /\ Emit([e |-> "bc", txt |-> BcTxt(NCm + 1)], phase, FALSE)
ALc == TRoom /\ ~needNl /\ NCm < MaxCmt /\ Emit([e |-> "lc", txt |-> LcTxt(NCm + 1)], phase, TRUE)
AFinish == ~done /\ ~needNl /\ phase \in {"arg", "comma"} /\ done' = TRUE /\ UNCHANGED <<seq, phase, needNl>>
Next == AArg \/ AComma \/ ASp \/ ANl \/ ABc \/ ALc \/ AFinish
Spec == Init /\ [][Next]_vars

(***************************************************************************)
(* is_formatable_table                                                     *)
(***************************************************************************)
BLACKLIST == {"table.cell", "table.vline", "table.hline", "grid.cell", "grid.vline", "grid.hline"}
HEADFOOT == {"table.header", "table.footer", "grid.header", "grid.footer"}
Args(sq) == SelectSeq(sq, IsArg)
(* get_table_columns: the first `columns:` argument whose value is an integer (or an array) *)
Columns(sq) == LET as == Args(sq)
                   c == {i \in 1..Len(as) : as[i].cols >= 0}
               IN IF c = {} THEN -1 ELSE as[CHOOSE i \in c : \A j \in c : i <= j].cols
Formatable(sq) ==
  LET as == Args(sq) IN
  /\ \A i \in 1..Len(sq) : sq[i].e \notin {"bc", "lc"}                                   \* 1. no comments
  /\ \A i \in 1..Len(as) : as[i].k # "spread"                                            \* 2. no spread arguments
  /\ \A i, j \in 1..Len(as) : (i < j /\ as[i].k = "pos") => as[j].k # "named"             \* 3. named arguments first
  /\ \E i \in 1..Len(as) : as[i].k = "pos"                                               \* 4. a positional argument
  /\ \A i \in 1..Len(as) : as[i].name \notin BLACKLIST                                   \* 5. no cell / hline / vline
  /\ Columns(sq) >= 0

(***************************************************************************)
(* convert_table                                                           *)
(***************************************************************************)
(* the rows: a cell is pushed; a full row is closed; a header / footer call closes the row it is in (an empty one
   if the row has just been closed) *)
RECURSIVE RowsOf(_, _, _, _, _)
RowsOf(pos, i, cols, row, rows) ==
  IF i > Len(pos) THEN (IF row = <<>> THEN rows ELSE Append(rows, row))
  ELSE LET r1 == Append(row, pos[i])
           full == Len(r1) = cols
           rows1 == IF full THEN Append(rows, r1) ELSE rows
           r2 == IF full THEN <<>> ELSE r1
       IN IF pos[i].name \in HEADFOOT THEN RowsOf(pos, i + 1, cols, <<>>, Append(rows1, r2))
          ELSE RowsOf(pos, i + 1, cols, r2, rows1)
RowDoc(row, lastRow) ==
  LET RECURSIVE go(_, _)
      go(i, acc) == IF i > Len(row) THEN acc
                    ELSE go(i + 1, Cat(acc, Cat3(T(row[i].txt), T(","),
                                                  IF i < Len(row) THEN LINE ELSE IF ~lastRow THEN LINE_ ELSE NIL)))
  IN go(1, NIL)
TableDoc(sq) ==
  LET as == Args(sq)
      named == SelectSeq(as, LAMBDA a : a.k = "named")
      pos == SelectSeq(as, LAMBDA a : a.k = "pos")
      rows == RowsOf(pos, 1, Columns(sq), <<>>, <<>>)
      RECURSIVE nm(_, _)
      nm(i, acc) == IF i > Len(named) THEN acc ELSE nm(i + 1, Cat(acc, Cat3(T(named[i].txt), T(","), HL)))
      RECURSIVE rw(_, _)
      rw(i, acc) == IF i > Len(rows) THEN acc
                    ELSE rw(i + 1, Cat(acc, Cat(Group(RowDoc(rows[i], i = Len(rows))), IF i < Len(rows) THEN HL ELSE NIL)))
  IN Enclose(Cat(Nest(Unit, rw(1, nm(1, HL))), HL), T("("), T(")"))

(***************************************************************************)
(* PlainStylist (layout/plain.rs) over the children between the parens     *)
(***************************************************************************)
Min(a, b) == IF a < b THEN a ELSE b
RECURSIVE PlainItems(_, _, _)
PlainItems(sq, i, items) ==
  IF i > Len(sq) THEN items
  ELSE LET ev == sq[i] IN
       PlainItems(sq, i + 1,
                  CASE ev.e = "sp" -> items
                    [] ev.e = "nl" -> IF items = <<>> THEN items ELSE Append(items, [p |-> "lb", n |-> Min(ev.n, 3)])
                    [] ev.e = "comma" -> Append(items, [p |-> "comma"])
                    [] ev.e = "lc" -> Append(items, [p |-> "lc", txt |-> ev.txt])
                    [] ev.e = "bc" -> Append(items, [p |-> "bc", txt |-> ev.txt])
                    [] OTHER -> Append(items, [p |-> "item", txt |-> ev.txt]))
RECURSIVE DropTrailingLb(_)
DropTrailingLb(items) == IF items # <<>> /\ items[Len(items)].p = "lb" THEN DropTrailingLb(SubSeq(items, 1, Len(items) - 1))
                         ELSE items
PlainMulti(sq) == \E i \in 1..Len(sq) : sq[i].e \in {"nl", "lc"}
PlainPush(f, it) == CASE it.p = "item"  -> PushDoc(f, T(it.txt), TRUE, TRUE)
                      [] it.p = "comma" -> PushDoc(f, T(","), FALSE, TRUE)
                      [] it.p = "lb"    -> PushDoc(f, Rep(HL, it.n), FALSE, FALSE)
                      [] it.p = "lc"    -> PushDoc(f, T(it.txt), TRUE, FALSE)
                      [] it.p = "bc"    -> PushDoc(f, T(it.txt), TRUE, TRUE)
RECURSIVE PlainRun(_, _, _)
PlainRun(f, items, i) == IF i > Len(items) THEN f ELSE PlainRun(PlainPush(f, items[i]), items, i + 1)
PlainDoc(sq) ==
  LET d == PlainRun(F0, DropTrailingLb(PlainItems(sq, 1, <<>>)), 1).doc
      body == IF PlainMulti(sq) THEN Enclose(d, HL, HL) ELSE d
  IN Enclose(Nest(Unit, body), T("("), T(")"))

ArgsDoc(sq) == IF Formatable(sq) THEN TableDoc(sq) ELSE PlainDoc(sq)
Whole(d) == Cat(Cat(T("#table"), d), HL)
OutOf(sq, w) == Format(Whole(ArgsDoc(sq)), w)
Out(w) == OutOf(seq, w)

(***************************************************************************)
(* Invariants on the rendered lines                                        *)
(***************************************************************************)
StartsAt(s, t, i) == i + Len(t) - 1 <= Len(s) /\ SubSeq(s, i, i + Len(t) - 1) = t
Occurs(s, t) == {i \in 1..Len(s) : StartsAt(s, t, i)}
EndsWithS(s, t) == Len(t) <= Len(s) /\ SubSeq(s, Len(s) - Len(t) + 1, Len(s)) = t
RECURSIVE LTrimPosS(_, _)
LTrimPosS(s, i) == IF i <= Len(s) /\ SubSeq(s, i, i) = " " THEN LTrimPosS(s, i + 1) ELSE i
RECURSIVE Squeeze(_, _, _)          \* s without blanks and commas
Squeeze(s, i, acc) == IF i > Len(s) THEN acc
                      ELSE LET ch == SubSeq(s, i, i) IN Squeeze(s, i + 1, IF ch \in {" ", ","} THEN acc ELSE acc \o ch)
RECURSIVE ConcatSq(_, _, _)
ConcatSq(ls, i, acc) == IF i > Len(ls) THEN acc ELSE ConcatSq(ls, i + 1, acc \o Squeeze(ls[i], 1, ""))
Expected == LET toks == SelectSeq(seq, LAMBDA ev : ev.e \in {"arg", "bc", "lc"})
                RECURSIVE cat(_, _) cat(i, acc) == IF i > Len(toks) THEN acc ELSE cat(i + 1, acc \o Squeeze(toks[i].txt, 1, ""))
            IN "#table(" \o cat(1, "") \o ")"
LineComments == {seq[i].txt : i \in {j \in 1..Len(seq) : seq[j].e = "lc"}}
InvTermination  == done => \A w \in 0..MaxW : \A i \in 1..Len(Out(w)) : \A t \in LineComments :
                              Occurs(Out(w)[i], t) # {} => EndsWithS(Out(w)[i], t)
(* arguments and comments come out once and in source order (C01 / C06 at model level) *)
InvConservation == done => \A w \in 0..MaxW : ConcatSq(Out(w), 1, "") = Expected
InvIndentUnit   == done => \A w \in 0..MaxW : \A i \in 1..Len(Out(w)) :
                              Out(w)[i] = "" \/ (LTrimPosS(Out(w)[i], 1) - 1) \in {0, Unit}
(* a formatted table never holds more than `columns` cells on a line, and holds exactly that many per full row
   once the width allows it *)
CellsOn(s) == Cardinality({p \in 1..Len(s) : SubSeq(s, p, p) = "["}) -
              Cardinality(UNION {Occurs(s, t) : t \in {"table.header([h])", "table.footer([f])"}})
InvRowShape == (done /\ Formatable(seq) /\ Columns(seq) > 0) =>
                  \A w \in 0..MaxW : \A i \in 1..Len(Out(w)) : CellsOn(Out(w)[i]) <= Columns(seq)

(***************************************************************************)
(* Model-level convergence: the output is tokenised back into children and *)
(* laid out again at the same width.                                       *)
(***************************************************************************)
AllArgs == {Arg(kind, n) : kind \in ArgKinds, n \in 1..5}
NameOf(txt) == CASE txt = "table.header([h])" -> "table.header" [] txt = "table.footer([f])" -> "table.footer"
                 [] txt = "table.hline()" -> "table.hline" [] OTHER -> ""
Canon(a) == [a EXCEPT !.src = a.txt, !.name = NameOf(a.txt)]
TokSet == {a.txt : a \in AllArgs} \cup {BcTxt(k) : k \in 1..2} \cup {LcTxt(k) : k \in 1..2} \cup {",", "(", ")", "#table"}
RECURSIVE LexLine(_, _, _)
LexLine(s, i, acc) ==
  IF i > Len(s) THEN acc
  ELSE IF SubSeq(s, i, i) = " "
       THEN LexLine(s, i + 1, IF acc # <<>> /\ acc[Len(acc)] # " " THEN Append(acc, " ") ELSE acc)
       ELSE LET cand == {t \in TokSet : StartsAt(s, t, i)}
                m == CHOOSE t \in cand : \A u \in cand : Len(u) <= Len(t)
            IN LexLine(s, i + Len(m), Append(acc, m))
TokEvent(t) == IF t = " " THEN [e |-> "sp"]
               ELSE IF t = "," THEN [e |-> "comma"]
               ELSE IF t \in {BcTxt(k) : k \in 1..2} THEN [e |-> "bc", txt |-> t]
               ELSE IF t \in {LcTxt(k) : k \in 1..2} THEN [e |-> "lc", txt |-> t]
               ELSE IF t \in {"(", ")", "#table"} THEN [e |-> "delim", txt |-> t]
               ELSE Canon(CHOOSE a \in AllArgs : a.txt = t)             \* the printed form is the canonical spelling
RECURSIVE LexLines(_, _, _, _)
LexLines(ls, k, acc, pend) ==
  IF k > Len(ls) THEN acc
  ELSE LET toks == LexLine(ls[k], 1, <<>>)
           evs == [j \in 1..Len(toks) |-> TokEvent(toks[j])]
       IN IF toks = <<>> THEN LexLines(ls, k + 1, acc, pend + 1)
          ELSE LexLines(ls, k + 1, (IF acc # <<>> /\ pend > 0 THEN Append(acc, [e |-> "nl", n |-> pend]) ELSE acc) \o evs, 1)
Relex(ls) == LET all == LexLines(ls, 1, <<>>, 0)
                 open == CHOOSE i \in 1..Len(all) : all[i].e = "delim" /\ all[i].txt = "("
                 close == CHOOSE i \in 1..Len(all) : all[i].e = "delim" /\ all[i].txt = ")"
                                /\ \A j \in (i + 1)..Len(all) : ~(all[j].e = "delim" /\ all[j].txt = ")")
             IN SubSeq(all, open + 1, close - 1)
InvConvergence == done => \A w \in 0..MaxW : OutOf(Relex(Out(w)), w) = Out(w)

Gen == (done /\ GenOn) => PrintT(<<"GEN", ToJson([inst |-> "table", unit |-> Unit,
                                                 seq |-> [i \in 1..Len(seq) |-> IF IsArg(seq[i]) THEN [e |-> "arg", txt |-> seq[i].src] ELSE seq[i]],
                                                 formatable |-> Formatable(seq),
                                                 pred |-> [w \in 0..MaxW |-> Out(w)]])>>)
=============================================================================
