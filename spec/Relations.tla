----------------------------- MODULE Relations -----------------------------
(***************************************************************************)
(* L3 — the contract relations of one Format step (DESIGN.md §2.1, §6).    *)
(*                                                                         *)
(* Each R<nn>(e) is the most liberal reading of property C<nn> as a        *)
(* relation between the projected input and the projected output of ONE    *)
(* real call of the formatter (event e, schema in DESIGN.md §3.4).  The    *)
(* same operators are used as invariants of the implementation-shaped      *)
(* models (L2) and as acceptance conditions of the trace specifications.   *)
(***************************************************************************)
EXTENDS Naturals, Sequences, FiniteSets, SequencesExt, Functions, TLC

Comments  == {"LineComment", "BlockComment"}
Delims    == {"LeftParen", "RightParen", "LeftBrace", "RightBrace", "LeftBracket", "RightBracket"}
CodeDrop  == Comments \cup Delims \cup {"Space", "Comma", "Semicolon"}
ItemLike  == {"Heading", "ListItem", "EnumItem", "TermItem", "Ref", "Strong", "Emph", "ContentBlock"}
MathTight == {"Args", "MathAttach", "MathFrac", "MathRoot", "Named", "Spread", "FuncCall", "FieldAccess", "Array"}
Binding   == {"LetBinding", "SetRule", "ShowRule", "ModuleImport", "ModuleInclude"}
WsKinds   == {"Space", "Parbreak"}

IsWsK(k) == k \in WsKinds

NoCmt(cs)   == SelectSeq(cs, LAMBDA x : x.k \notin Comments)
NoCmtSp(cs) == SelectSeq(cs, LAMBDA x : x.k \notin Comments \cup {"Space"})
Kept(cs)    == SelectSeq(cs, LAMBDA x : x.k \notin CodeDrop)
HasCmtChild(n) == \E i \in 1..Len(n.c) : n.c[i].k \in Comments

(* The expressions of a code block: the block's `Code` child flattened. *)
BlockInner(n) == LET cs == Kept(n.c)
                 IN IF Len(cs) = 1 /\ cs[1].k = "Code" /\ cs[1].inner THEN Kept(cs[1].c) ELSE cs
BlockHasCmt(n) == HasCmtChild(n) \/ \E i \in 1..Len(n.c) : n.c[i].k = "Code" /\ n.c[i].inner /\ HasCmtChild(n.c[i])

(* The printer may wrap the body of a closure in braces (`x => y = 1` becomes `x => { y = 1 }`):
   a closure body that is a block of exactly one expression — binding or not, the scope ends with
   the body either way — is the expression. *)
UnwrapBody(cs) ==
  LET n == Len(cs) IN
  IF n > 0 /\ cs[n].k = "CodeBlock" /\ cs[n].inner /\ Len(BlockInner(cs[n])) = 1
  THEN [cs EXCEPT ![n] = BlockInner(cs[n])[1]] ELSE cs

(* A trailing comma of math Args or of an implicit math row Array is layout: the printer
   adds one when it breaks a row and Typst's math_args ignores it. *)
DropTrailingComma(k, cs) ==
  IF k \notin {"Args", "Array"} THEN cs
  ELSE LET j == IF Len(cs) > 0 /\ cs[Len(cs)].k = "RightParen" THEN Len(cs) - 1 ELSE Len(cs)
       IN IF j >= 1 /\ cs[j].k = "Comma" THEN SubSeq(cs, 1, j - 1) \o SubSeq(cs, j + 1, Len(cs)) ELSE cs

(* Adjacent whitespace merged (a Parbreak wins over a Space). *)
PushWs(acc, x) ==
  IF IsWsK(x.k) /\ acc # <<>> /\ IsWsK(acc[Len(acc)].k)
  THEN (IF x.k = "Parbreak" THEN [acc EXCEPT ![Len(acc)] = x] ELSE acc)
  ELSE Append(acc, x)

SP == [k |-> "Space"]

(* Markup children: Text re-tokenised into words, adjacent whitespace merged, edges trimmed. *)
Canon(ns) ==
  LET step(acc, x) ==
        IF x.k = "Text" THEN
           LET a1 == IF x.lead THEN PushWs(acc, SP) ELSE acc
               a2 == FoldLeft(LAMBDA a, j : Append(IF j > 1 THEN PushWs(a, SP) ELSE a, [k |-> "W", t |-> x.ws[j]]),
                              a1, [j \in 1..Len(x.ws) |-> j])
           IN IF x.trail THEN PushWs(a2, SP) ELSE a2
        ELSE PushWs(acc, x)
      all == FoldLeft(step, <<>>, ns)
      lo  == IF all # <<>> /\ IsWsK(all[1].k) THEN 2 ELSE 1
      hi  == IF all # <<>> /\ IsWsK(all[Len(all)].k) THEN Len(all) - 1 ELSE Len(all)
  IN SubSeq(all, lo, hi)

MergeSp(ns) == FoldLeft(PushWs, <<>>, ns)

RECURSIVE Norm(_, _)
NormSeq(cs, mode) ==
  [i \in 1..Len(cs) |->
     Norm(cs[i], IF mode \in {"markup", "math"} /\ i > 1 /\ cs[i-1].k = "Hash" THEN "code" ELSE mode)]

Norm(n, mode) ==
  IF ~n.inner THEN
     IF n.k \in {"Space", "Parbreak", "Str"} THEN [k |-> n.k]          \* Str / Raw content is R10's
     ELSE IF n.k = "Raw"  THEN [k |-> "Raw", blk |-> n.blk, lang |-> n.lang]
     ELSE IF n.k = "Text" THEN [k |-> "Text", ws |-> n.ws, lead |-> n.lead, trail |-> n.trail]
     ELSE [k |-> n.k, t |-> n.t]
  ELSE IF n.k = "Markup"   THEN [k |-> "Markup", c |-> Canon(NormSeq(NoCmt(n.c), "markup"))]
  ELSE IF n.k = "Equation" THEN [k |-> "Equation",
                                 block |-> Len(n.c) >= 4 /\ n.c[2].k = "Space" /\ n.c[Len(n.c)-1].k = "Space",
                                 c |-> NormSeq(NoCmtSp(n.c), "math")]
  ELSE IF n.k = "Math"     THEN [k |-> "Math", c |-> MergeSp(NormSeq(NoCmt(n.c), "math"))]
  ELSE IF n.k \in ItemLike THEN [k |-> n.k, c |-> NormSeq(NoCmtSp(n.c), "markup")]
  ELSE IF mode = "math" /\ n.k \in MathTight
                           THEN [k |-> n.k, c |-> NormSeq(DropTrailingComma(n.k, NoCmtSp(n.c)), "math")]
  ELSE IF mode = "math"    THEN [k |-> n.k, c |-> MergeSp(NormSeq(NoCmt(n.c), "math"))]
  ELSE IF n.k = "Parenthesized" THEN Norm(Kept(n.c)[1], "code")
  ELSE IF n.k = "CodeBlock" /\ Len(BlockInner(n)) = 1 /\ BlockInner(n)[1].k \notin Binding
                           THEN Norm(BlockInner(n)[1], "code")
  ELSE IF n.k = "Closure"  THEN [k |-> "Closure", c |-> NormSeq(UnwrapBody(Kept(n.c)), "code")]
  ELSE IF n.k = "Dict"     THEN [k |-> "Dict", c |-> NormSeq(SelectSeq(Kept(n.c), LAMBDA x : x.k # "Colon"), "code")]
  ELSE [k |-> n.k, c |-> NormSeq(Kept(n.c), "code")]

(* With import reordering on, the children of ImportItems are compared as a multiset: the
   normal form sorts nothing (TLC cannot order strings); instead R01ro compares bags. *)
RECURSIVE Bagify(_)
Bagify(t) ==
  IF "c" \notin DOMAIN t THEN t
  ELSE IF t.k = "ImportItems"
       THEN [k |-> t.k, bag |-> LET cs == [i \in 1..Len(t.c) |-> Bagify(t.c[i])]
                                IN [x \in Range(cs) |-> Cardinality({i \in 1..Len(cs) : cs[i] = x})]]
       ELSE [t EXCEPT !.c = [i \in 1..Len(t.c) |-> Bagify(t.c[i])]]

R01(e) == IF e.ro THEN Bagify(Norm(e.in, "markup")) = Bagify(Norm(e.out, "markup"))
          ELSE Norm(e.in, "markup") = Norm(e.out, "markup")

R04(e) == ~e.oerr

(***************************************************************************)
(* R03 — convergence: every second pass (one per width of the group)       *)
(* returned exactly the first pass' bytes.                                 *)
(***************************************************************************)
R03(e) == e.s2 = <<e.s1>>

(***************************************************************************)
(* String helpers (TLC: Len, \o and SubSeq work on strings).               *)
(***************************************************************************)
Blank(c) == c \in {" ", "\t", "\r"}
RECURSIVE RTrimLen(_, _)
RTrimLen(s, n) == IF n > 0 /\ Blank(SubSeq(s, n, n)) THEN RTrimLen(s, n - 1) ELSE n
RTrim(s) == SubSeq(s, 1, RTrimLen(s, Len(s)))
RECURSIVE LTrimPos(_, _)
LTrimPos(s, i) == IF i <= Len(s) /\ Blank(SubSeq(s, i, i)) THEN LTrimPos(s, i + 1) ELSE i
LTrim(s) == SubSeq(s, LTrimPos(s, 1), Len(s))

(***************************************************************************)
(* R06 — comments keep kind, normalised text and the number of words       *)
(* before them.  `not in` counts as one word.                              *)
(***************************************************************************)
WordKinds == {"Ident", "MathIdent", "MathText", "Int", "Float", "Numeric", "Str", "Bool", "None", "Auto",
              "Label", "RefMarker", "Link", "Escape", "Raw", "Let", "Set", "Show", "Context", "If", "Else",
              "For", "In", "While", "Break", "Continue", "Return", "Import", "Include", "As", "Not", "And", "Or",
              "Shorthand", "SmartQuote", "MathShorthand", "Linebreak", "MathAlignPoint", "MathPrimes"}
WordCount(x) == IF x.k = "Text" THEN x.nw ELSE IF x.k \in WordKinds THEN 1 ELSE 0
NormCmt(ls)  == [i \in 1..Len(ls) |-> IF i = 1 THEN RTrim(ls[1]) ELSE LTrim(RTrim(ls[i]))]
RECURSIVE NextSigKind(_, _)
NextSigKind(lv, i) == IF i > Len(lv) THEN "" ELSE
                      IF lv[i].k \in Comments \cup WsKinds THEN NextSigKind(lv, i + 1) ELSE lv[i].k
CmtPos(lv) ==
  LET step(st, i) == LET x == lv[i] IN
        IF x.k \in Comments THEN [st EXCEPT !.acc = Append(@, <<x.k, NormCmt(x.ls), st.w>>)]
        ELSE IF x.k = "Not" /\ NextSigKind(lv, i + 1) = "In" THEN st
        ELSE [st EXCEPT !.w = @ + WordCount(x)]
  IN FoldLeftDomain(step, [w |-> 0, acc |-> <<>>], lv).acc
(* the words in order; the words of adjacent Text tokens form one run (the parser splits Text at double blanks,
   the printer joins them with one) *)
Words(lv) == LET ws == SelectSeq(lv, LAMBDA x : WordCount(x) > 0 /\ x.k \notin {"Str", "Raw"})
             IN FoldLeft(LAMBDA acc, x : IF x.k = "Text" THEN acc \o [j \in 1..Len(x.ws) |-> <<"W", x.ws[j]>>]
                                         ELSE Append(acc, <<x.k, x.t>>), <<>>, ws)
(* the neighbouring words of every comment: the word stream including Str / Raw placeholders, built by the same
   walk as CmtPos (same `not in` rule), and for each comment the word before and the word after it *)
WordsAll(lv) ==
  LET step(acc, i) == LET x == lv[i] IN
        IF x.k \in Comments THEN acc
        ELSE IF x.k = "Not" /\ NextSigKind(lv, i + 1) = "In" THEN acc
        ELSE IF x.k = "Text" THEN acc \o [j \in 1..Len(x.ws) |-> <<"W", x.ws[j]>>]
        ELSE IF WordCount(x) > 0 THEN Append(acc, IF x.k \in {"Str", "Raw"} THEN <<x.k, "">> ELSE <<x.k, x.t>>)
        ELSE acc
  IN FoldLeftDomain(step, <<>>, lv)
CmtNeighbours(lv) ==
  LET ws == WordsAll(lv)
      cp == CmtPos(lv)
  IN [i \in 1..Len(cp) |-> <<IF cp[i][3] >= 1 /\ cp[i][3] <= Len(ws) THEN ws[cp[i][3]] ELSE <<"edge">>,
                             IF cp[i][3] + 1 <= Len(ws) THEN ws[cp[i][3] + 1] ELSE <<"edge">> >>]
(* the comments of the INPUT that lie inside an import statement (a comment outside legitimately gets a new
   neighbour when the adjacent import items are permuted; the k-th comment of the output is the k-th of the input) *)
InImport(lv) == LET cm == SelectSeq(lv, LAMBDA x : x.k \in Comments) IN {i \in 1..Len(cm) : cm[i].imp}
SameNeighboursInImports(e) ==
  LET a == CmtNeighbours(e.pin.lv)  b == CmtNeighbours(e.pout.lv)
  IN Len(a) = Len(b) /\ \A i \in InImport(e.pin.lv) : a[i] = b[i]

(* with import reordering on, the words of import items are permuted (C19 decides how): the word streams are
   then compared as bags; a comment's word position is unaffected because an import that holds a comment keeps
   its order *)
WordBag(ws) == [x \in {ws[i] : i \in 1..Len(ws)} |-> Cardinality({i \in 1..Len(ws) : ws[i] = x})]
R06(e) == /\ CmtPos(e.pin.lv) = CmtPos(e.pout.lv)
          /\ IF e.ro THEN /\ WordBag(Words(e.pin.lv)) = WordBag(Words(e.pout.lv))
                          /\ SameNeighboursInImports(e)                            \* same neighbouring words
             ELSE Words(e.pin.lv) = Words(e.pout.lv)

(***************************************************************************)
(* R05 — totality on every recorded call (also used by the universes of    *)
(* the other relations): the call returned, and refused iff erroneous.     *)
(***************************************************************************)
R05(e) == e.outcome \in {"ok", "err"} /\ ((e.outcome = "err") <=> e.ierr)

(***************************************************************************)
(* R08 — prose: lockstep walk over the children of corresponding Markup    *)
(* nodes.                                                                  *)
(***************************************************************************)
TextLike    == {"Word", "Escape", "Shorthand", "SmartQuote", "Link", "Label", "RefMarker", "Linebreak"}
MarkupElems == {"Strong", "Emph", "Raw", "Heading", "ListItem", "EnumItem", "TermItem", "Equation", "Ref",
                "Hash", "Semicolon", "Shebang"}
Entry(x) == IF x.k \in TextLike THEN <<x.k, x.t>> ELSE IF x.k \in MarkupElems THEN <<x.k>> ELSE <<"code">>
IsWsC(x) == x.k \in WsKinds \cup Comments
RECURSIVE SkipWs(_, _)
SkipWs(a, i) == IF i <= Len(a) /\ IsWsC(a[i]) THEN SkipWs(a, i + 1) ELSE i
(* strongest element of the whitespace run a[i..i2-1]: par n > nl > sp > none *)
RunClass(a, i, i2) ==
  LET idx == i..(i2 - 1)
      pars == {j \in idx : a[j].k = "Parbreak"}
  IN IF pars # {} THEN <<"par", CHOOSE n \in {a[j].nl : j \in pars} : \A m \in {a[j].nl : j \in pars} : n >= m>>
     ELSE IF \E j \in idx : a[j].k = "Space" /\ a[j].nl > 0 THEN <<"nl">>
     ELSE IF \E j \in idx : a[j].k = "Space" THEN <<"sp">>
     ELSE <<"none">>
RECURSIVE Walk(_, _, _, _)
Walk(a, i, b, j) ==
  LET i2 == SkipWs(a, i)  j2 == SkipWs(b, j) IN
  IF i2 > Len(a) \/ j2 > Len(b) THEN i2 > Len(a) /\ j2 > Len(b)                \* trailing edge exempt
  ELSE /\ (i = 1 /\ j = 1) \/ RunClass(a, i, i2) = RunClass(b, j, j2)          \* leading edge exempt
       /\ Entry(a[i2]) = Entry(b[j2])
       /\ Walk(a, i2 + 1, b, j2 + 1)
R08(e) == /\ Len(e.pin.mk) = Len(e.pout.mk)
          /\ \A i \in 1..Len(e.pin.mk) : Walk(e.pin.mk[i], 1, e.pout.mk[i], 1)

(***************************************************************************)
(* R09 — math whitespace.                                                  *)
(***************************************************************************)
MSigC(c) == IF c.k = "Space" THEN (IF c.nl = 0 THEN "sp" ELSE "nl") ELSE IF c.k \in Comments THEN "c" ELSE "a"
(* comments are transparent; whitespace runs around them merge, the strongest class wins *)
MSigSeq(cs) ==
  LET step(acc, c) ==
        LET s == MSigC(c) IN
        IF s = "c" THEN acc
        ELSE IF s \in {"sp", "nl"} /\ acc # <<>> /\ acc[Len(acc)] \in {"sp", "nl"}
             THEN (IF s = "nl" THEN [acc EXCEPT ![Len(acc)] = "nl"] ELSE acc)
             ELSE Append(acc, s)
  IN FoldLeft(step, <<>>, cs)
MSig(m) == IF m.k = "Equation"
           THEN <<"eq", Len(m.c) >= 4 /\ m.c[2].k = "Space" /\ m.c[Len(m.c)-1].k = "Space">>
           ELSE MSigSeq(m.c)
R09(e) == /\ Len(e.pin.mt) = Len(e.pout.mt)
          /\ \A i \in 1..Len(e.pin.mt) : MSig(e.pin.mt[i]) = MSig(e.pout.mt[i])

(***************************************************************************)
(* R10 — literal content.                                                  *)
(***************************************************************************)
LitKinds == {"Str", "Raw", "Int", "Float", "Numeric", "Bool", "Ident", "MathIdent", "Label", "RefMarker",
             "Link", "Escape", "Shorthand", "MathShorthand", "MathText"}
LitSeq(lv) == LET s == SelectSeq(lv, LAMBDA x : x.k \in LitKinds)
              IN [i \in 1..Len(s) |-> IF s[i].k = "Raw" THEN <<"Raw", s[i].raw>> ELSE <<s[i].k, s[i].t>>]
R10(e) == LitSeq(e.pin.lv) = LitSeq(e.pout.lv)

(***************************************************************************)
(* R11 — output hygiene.  White_Space code points.                         *)
(***************************************************************************)
WhiteSpaceCP == {9, 10, 11, 12, 13, 32, 133, 160, 5760, 8192, 8193, 8194, 8195, 8196, 8197, 8198, 8199, 8200,
                 8201, 8202, 8232, 8233, 8239, 8287, 12288}
R11(e) == LET ls == e.lines IN
          /\ Len(ls) >= 2
          /\ ls[Len(ls)].n = 0
          /\ \A i \in 1..Len(ls) : ls[i].n = 0 \/ ls[i].last \notin WhiteSpaceCP

(***************************************************************************)
(* R12a — every line of formatter-produced layout is indented by a whole   *)
(* multiple of the unit.  Continuation lines of multi-line comments,       *)
(* strings, raw text and disabled regions are exempt.                      *)
(***************************************************************************)
(* exempt: inside a multi-line token / disabled node of the re-parsed output, or a line copied verbatim from a
   disabled node of the INPUT (when the verbatim region changes the nesting, the output tree no longer shows it) *)
Exempt(e, i) == e.lines[i].cp \/ \E j \in 1..Len(e.ml) : e.ml[j].a < i /\ i <= e.ml[j].b
R12a(e) == e.tab = 0 \/ \A i \in 1..Len(e.lines) :
              e.lines[i].n = 0 \/ Exempt(e, i) \/ e.lines[i].ind % e.tab = 0

(***************************************************************************)
(* R12b — the multiple of the unit does not depend on the unit: outputs    *)
(* under two units at a width where nothing wraps differ only in leading   *)
(* spaces, by exactly the ratio of the units.                              *)
(***************************************************************************)
R12b(e) == /\ Len(e.l1) = Len(e.l2)
           /\ \A i \in 1..Len(e.l1) :
                LET a == e.l1[i]  b == e.l2[i] IN
                /\ a.ex = b.ex
                /\ a.rest = b.rest
                /\ (a.ex \/ a.rest = "") \/ a.ind * e.u2 = b.ind * e.u1

(***************************************************************************)
(* R19 — import items: order kept with reordering off; with it on a sorted *)
(* permutation unless the import holds a comment or binds a name twice;    *)
(* nothing else differs between the two outputs.                           *)
(***************************************************************************)
ItemTexts(imp) == [i \in 1..Len(imp.items) |-> imp.items[i].text]
BagOf(sq) == [x \in Range(sq) |-> Cardinality({i \in 1..Len(sq) : sq[i] = x})]
DupBound(imp) == \E i, j \in 1..Len(imp.items) : i < j /\ imp.items[i].bound = imp.items[j].bound
SortedRanks(imp) == \A i \in 1..(Len(imp.items) - 1) : imp.items[i].rank <= imp.items[i+1].rank
R19(e) ==
  /\ ~e.oerr
  /\ Len(e.off) = Len(e.in) /\ Len(e.on) = Len(e.in)
  /\ \A i \in 1..Len(e.in) :
       /\ ItemTexts(e.off[i]) = ItemTexts(e.in[i])
       /\ BagOf(ItemTexts(e.on[i])) = BagOf(ItemTexts(e.in[i]))
       /\ IF e.in[i].has_comment \/ DupBound(e.in[i]) \/ e.in[i].disabled      \* disabled: verbatim (C07)
          THEN ItemTexts(e.on[i]) = ItemTexts(e.in[i])
          ELSE SortedRanks(e.on[i])
  /\ e.rest_on = e.rest_off

(***************************************************************************)
(* R07 — `@typstyle off`: the node after the k-th directive of the input   *)
(* appears verbatim (apart from blanks at line ends) after the k-th        *)
(* directive of the output, possibly inside optional delimiters the        *)
(* printer added, or — when the delimiters that enclosed directive and     *)
(* node were dropped — as a prefix of what follows the directive.          *)
(***************************************************************************)
RTrimLines(ls) == [i \in 1..Len(ls) |-> RTrim(ls[i])]
IsStrPrefix(a, b) == Len(a) <= Len(b) /\ SubSeq(b, 1, Len(a)) = a
(* a (lines) is a prefix of b (lines): all lines but the last equal, the last a prefix *)
PrefixLines(a, b) ==
  /\ Len(a) >= 1 /\ Len(a) <= Len(b)
  /\ \A i \in 1..(Len(a) - 1) : a[i] = b[i]
  /\ IsStrPrefix(a[Len(a)], b[Len(a)])
Verbatim(din, dout) ==
  LET want == RTrimLines(din.lines) IN
  \/ \E c \in 1..Len(dout.cands) : RTrimLines(dout.cands[c]) = want
  \/ PrefixLines(want, RTrimLines(dout.rest))
R07(e) ==
  /\ Len(e.dout) = Len(e.din)                                   \* every directive is kept
  /\ \A k \in 1..Len(e.din) :
       (e.din[k].has /\ e.din[k].target) => (e.dout[k].has /\ Verbatim(e.din[k], e.dout[k]))

(***************************************************************************)
(* R13 — range formatting is safe to splice.  One `range` event = one      *)
(* distinct result of format_source_range on a source, with all the        *)
(* requested ranges (s, e) that produced it; ts, te = the request clamped  *)
(* to the text and trimmed, recomputed by the harness.                     *)
(***************************************************************************)
R13NoPanic(e) == e.outcome \in {"ok", "err"}
R13Cover(e) == e.outcome = "ok" =>
                 /\ <<e.a, e.b>> \in {<<e.node_ranges[i][1], e.node_ranges[i][2]>> : i \in 1..Len(e.node_ranges)}
                 /\ \A i \in 1..Len(e.reqs) : e.a <= e.reqs[i].ts /\ e.reqs[i].te <= e.b
R13Refuse(e) == /\ (e.outcome = "ok" => ~e.node_all_err)          \* never text for an erroneous node
                /\ (e.outcome = "err" => e.ierr)                  \* a well-formed source is never refused
R13Splice(e) == (e.outcome = "ok" /\ ~e.ierr) =>
                  /\ ~e.splice_err
                  /\ ("in" \in DOMAIN e => Norm(e.in, "markup") = Norm(e.out, "markup"))

(***************************************************************************)
(* R16 — every front-end yields exactly the library's bytes (digest and    *)
(* length of what the front-end produced vs of what the library returns    *)
(* for the same text and configuration; the input itself when erroneous).  *)
(***************************************************************************)
R16(e) == e.cli_sha = e.lib_sha /\ e.cli_len = e.lib_len

(***************************************************************************)
(* R02 — the observation of the compiler is unchanged.  Obs(text) is an    *)
(* uninterpreted function supplied by the environment (the real Typst      *)
(* compiler, run by the harness): pages with their pixel digests and the   *)
(* document metadata, or the list of diagnostics.                          *)
(***************************************************************************)
R02(e) == e.obs_in = e.obs_out

=============================================================================
