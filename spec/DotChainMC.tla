------------------------------ MODULE DotChainMC ------------------------------
(***************************************************************************)
(* L2 — dot chains `a.b.c(x)` in code (code_chain.rs):                      *)
(*                                                                         *)
(*   Decide     `try_convert_dot_chain`: counts the field accesses, the     *)
(*              calls and the comments of the resolved chain and chooses    *)
(*              between the one-line form and the breakable chain;          *)
(*   PlainDoc   `try_convert_dot_chain_plain`: `ident(.ident)+args` in one  *)
(*              piece when the chain has more than one dot, exactly one     *)
(*              call (the outermost node), no comment, and the identifiers  *)
(*              and dots are shorter than chain_width = floor(0.6 * width); *)
(*   DotDoc     `convert_dot_chain`: `ChainStylist` with                    *)
(*              space_around_op = FALSE (op_sep = line_) and                *)
(*              no_break_single = TRUE (a chain of one dot without comment  *)
(*              is never broken and not nested).                            *)
(*                                                                         *)
(* The estimate of the one-line form is a function of the identifiers only. *)
(* With EstFromSource = TRUE it is the length of the callee's source text   *)
(* (white space inside the chain included) — the as-mutated variant used by *)
(* bin/selftest: the decision then depends on the layout of the input and   *)
(* the model-level convergence invariant fails.                             *)
(*                                                                         *)
(* Child events in source order: opd [args] (T* op T* opd [args])+ with     *)
(* T = blank | line feed | block comment | line comment (then a line feed). *)
(* The chain is the first item of an array `#(<chain>, z9)` (continued      *)
(* code), laid out by ListLayout + DocRender at every width.                *)
(***************************************************************************)
EXTENDS ChainLayout, ListLayout, Json
CONSTANTS MaxLen, MaxOps, MaxCmt, MaxArgs, ArgKinds, NlIndents, Widths, Unit, GenOn, EstFromSource

VARIABLES seq, phase, needNl, done
vars == <<seq, phase, needNl, done>>

OpdTxt(k) == CASE k = 1 -> "a1" [] k = 2 -> "bb2" [] k = 3 -> "cccc3" [] OTHER -> "d4"
BcTxt(k) == CASE k = 1 -> "/* c1 */" [] k = 2 -> "/* c2 */" [] OTHER -> "/* c3 */"
LcTxt(k) == CASE k = 1 -> "// c1" [] k = 2 -> "// c2" [] OTHER -> "// c3"
(* argument lists: "x" a single identifier (folds always: atomic), "e" empty, "kv" two arguments (breakable, Fit) *)
LongId == "xxxxxxxxxxxxxxxxxxxxxxxx"           \* one long identifier: the argument list is atomic and 26 bytes wide
ArgSeq(kind) == CASE kind = "x"  -> << [e |-> "item", txt |-> "x"] >>
                  [] kind = "e"  -> << >>
                  [] kind = "L"  -> << [e |-> "item", txt |-> LongId] >>
                  [] kind = "kv" -> << [e |-> "item", txt |-> "k1"], [e |-> "comma"], [e |-> "sp"], [e |-> "item", txt |-> "m2"] >>
ArgSrc(kind) == CASE kind = "x" -> "(x)" [] kind = "e" -> "()" [] kind = "kv" -> "(k1, m2)" [] kind = "L" -> "(" \o LongId \o ")"
ArgDoc(kind) == CASE kind = "x"  -> T("(x)")
                  [] kind = "e"  -> T("()")
                  [] kind = "L"  -> T(ArgSrc("L"))
                  [] kind = "kv" -> ListDoc([CfgOf("args", ArgSeq("kv"), Unit) EXCEPT !.fold = "fit"], ArgSeq("kv"))
Count(kinds) == Cardinality({i \in 1..Len(seq) : seq[i].e \in kinds})
LastWs == seq # <<>> /\ seq[Len(seq)].e \in {"sp", "nl"}

Init == seq = <<>> /\ phase = "start" /\ needNl = FALSE /\ done = FALSE
Emit(ev, ph, nn) == seq' = Append(seq, ev) /\ phase' = ph /\ needNl' = nn /\ done' = FALSE
Room == ~done /\ Len(seq) < MaxLen
AOpd == Room /\ ~needNl /\ phase \in {"start", "op"} /\ Emit([e |-> "opd", txt |-> OpdTxt(Count({"opd"}) + 1)], "opd", FALSE)
(* an argument list directly follows its callee (no trivia in between) *)
AArgs == Room /\ phase = "opd" /\ seq[Len(seq)].e = "opd" /\ Count({"args"}) < MaxArgs
         /\ \E kind \in ArgKinds : Emit([e |-> "args", txt |-> ArgSrc(kind), kind |-> kind], "opd", FALSE)
AOp  == Room /\ ~needNl /\ phase = "opd" /\ Count({"op"}) < MaxOps /\ Emit([e |-> "op", txt |-> "."], "op", FALSE)
ASp  == Room /\ ~needNl /\ ~LastWs /\ phase # "start" /\ Emit([e |-> "sp"], phase, FALSE)
(* a line feed followed by `ind` blanks of source indentation (the layout engine must not care how deep) *)
ANl  == Room /\ ~LastWs /\ phase # "start" /\ \E k \in NlIndents : Emit([e |-> "nl", n |-> 1, ind |-> k], phase, FALSE)
ABc  == Room /\ ~needNl /\ phase # "start" /\ Count({"bc", "lc"}) < MaxCmt /\ Emit([e |-> "bc", txt |-> BcTxt(Count({"bc", "lc"}) + 1)], phase, FALSE)
ALc  == Room /\ ~needNl /\ phase # "start" /\ Count({"bc", "lc"}) < MaxCmt /\ Emit([e |-> "lc", txt |-> LcTxt(Count({"bc", "lc"}) + 1)], phase, TRUE)
AFinish == ~done /\ ~needNl /\ phase = "opd" /\ Count({"op"}) >= 1 /\ seq[Len(seq)].e \in {"opd", "args"}
           /\ done' = TRUE /\ UNCHANGED <<seq, phase, needNl>>
Next == AOpd \/ AArgs \/ AOp \/ ASp \/ ANl \/ ABc \/ ALc \/ AFinish
Spec == Init /\ [][Next]_vars

(***************************************************************************)
(* ChainStylist.process for the dot chain: as CStep of ChainLayout, plus   *)
(* the fallback converter (argument lists are glued to the last body).     *)
(***************************************************************************)
DStep(st, ev) ==
  IF ev.e = "args"
  THEN (IF st.items # <<>> /\ st.items[Len(st.items)].t = "body"
        THEN [st EXCEPT !.items[Len(st.items)].doc = Cat(@, ArgDoc(ev.kind))]
        ELSE [st EXCEPT !.items = Append(@, [t |-> "body", doc |-> ArgDoc(ev.kind)])])
  ELSE CStep(st, ev)
RECURSIVE DProcess(_, _, _)
DProcess(st, sq, i) == IF i > Len(sq) THEN st ELSE DProcess(DStep(st, sq[i]), sq, i + 1)

(* print_doc with space_around_op = FALSE, no_break_single = TRUE *)
DPStep(p, it, simple) ==
  IF it.t = "op"
  THEN LET d1 == IF (p.hasBreak /\ p.leading) \/ simple THEN p.docs ELSE Append(p.docs, LINE_)
       IN [p EXCEPT !.docs = Append(d1, it.doc), !.hasBreak = FALSE, !.leading = FALSE, !.spaceAfter = FALSE]
  ELSE PStep(p, it)
RECURSIVE DPRun(_, _, _, _)
DPRun(p, items, i, simple) == IF i > Len(items) THEN p ELSE DPRun(DPStep(p, items[i], simple), items, i + 1, simple)
DotDoc(sq) ==
  LET st == DProcess(C0, sq, 1)
      simple == st.nOps = 1 /\ ~st.hasCmt
      p == DPRun(P0, st.items, 1, simple)
      first == p.docs[1]
      follow == CatAll(NIL, Tail(p.docs), 1)
  IN IF simple THEN Group(Cat(first, follow)) ELSE Group(Cat(first, Nest(Unit, follow)))

(***************************************************************************)
(* try_convert_dot_chain / try_convert_dot_chain_plain                     *)
(***************************************************************************)
ChainWidth(w) == (w * 6) \div 10
NOf(sq, kinds) == Cardinality({i \in 1..Len(sq) : sq[i].e \in kinds})
Opds(sq) == SelectSeq(sq, LAMBDA ev : ev.e = "opd")
RECURSIVE SumLen(_, _)
SumLen(s, i) == IF i > Len(s) THEN 0 ELSE Len(s[i].txt) + SumLen(s, i + 1)
IdentLen(sq) == SumLen(Opds(sq), 1) + NOf(sq, {"op"})
(* the callee's source text: everything before the last argument list, one byte per blank / line feed *)
SrcLenOf(ev) == CASE ev.e = "sp" -> 1 [] ev.e = "nl" -> 1 + ev.ind [] OTHER -> Len(ev.txt)
RECURSIVE SrcLen(_, _, _)
SrcLen(sq, i, n) == IF i > n THEN 0 ELSE SrcLenOf(sq[i]) + SrcLen(sq, i + 1, n)
Estimate(sq) == IF EstFromSource THEN SrcLen(sq, 1, Len(sq) - 1) ELSE IdentLen(sq)
PlainOK(sq, w) == /\ NOf(sq, {"op"}) > 1 /\ NOf(sq, {"args"}) = 1 /\ NOf(sq, {"bc", "lc"}) = 0
                  /\ sq[Len(sq)].e = "args"                            \* the outermost node is the call
                  /\ Estimate(sq) < ChainWidth(w)
PlainDoc(sq) ==
  LET os == Opds(sq)
      RECURSIVE go(_, _)
      go(i, acc) == IF i > Len(os) THEN acc ELSE go(i + 1, Cat(acc, Cat(T("."), T(os[i].txt))))
  IN Cat(go(2, T(os[1].txt)), ArgDoc(sq[Len(sq)].kind))
ChainOf(sq, w) == IF PlainOK(sq, w) THEN PlainDoc(sq) ELSE DotDoc(sq)

ArrOf(sq, w) == << [e |-> "item", txt |-> "", doc |-> ChainOf(sq, w)], [e |-> "comma"], [e |-> "sp"], [e |-> "item", txt |-> "z9"] >>
ArrShape == << [e |-> "item", txt |-> "c"], [e |-> "comma"], [e |-> "sp"], [e |-> "item", txt |-> "z9"] >>
ArrCfg == [CfgOf("array", ArrShape, Unit) EXCEPT !.fold = "fit"]
Whole(d) == Cat(Cat(T("#"), d), HL)
OutOf(sq, w) == Format(Whole(ListDoc(ArrCfg, ArrOf(sq, w))), w)
Out(w) == OutOf(seq, w)

(***************************************************************************)
(* Invariants on the rendered lines                                        *)
(***************************************************************************)
StartsAt(s, t, i) == i + Len(t) - 1 <= Len(s) /\ SubSeq(s, i, i + Len(t) - 1) = t
Occurs(s, t) == {i \in 1..Len(s) : StartsAt(s, t, i)}
EndsWithS(s, t) == Len(t) <= Len(s) /\ SubSeq(s, Len(s) - Len(t) + 1, Len(s)) = t
RECURSIVE LTrimPosS(_, _)
LTrimPosS(s, i) == IF i <= Len(s) /\ SubSeq(s, i, i) = " " THEN LTrimPosS(s, i + 1) ELSE i
RECURSIVE Squeeze(_, _, _)
Squeeze(s, i, acc) == IF i > Len(s) THEN acc
                      ELSE LET ch == SubSeq(s, i, i) IN
                           Squeeze(s, i + 1, IF ch \in {" ", ",", "(", ")", "#"} THEN acc ELSE acc \o ch)
RECURSIVE ConcatSq(_, _, _)
ConcatSq(ls, i, acc) == IF i > Len(ls) THEN acc ELSE ConcatSq(ls, i + 1, acc \o Squeeze(ls[i], 1, ""))
Expected == LET toks == SelectSeq(seq, LAMBDA ev : ev.e \in {"opd", "op", "args", "bc", "lc"})
                RECURSIVE cat(_, _) cat(i, acc) == IF i > Len(toks) THEN acc ELSE cat(i + 1, acc \o Squeeze(toks[i].txt, 1, ""))
            IN cat(1, "") \o "z9"
LineComments == {seq[i].txt : i \in {j \in 1..Len(seq) : seq[j].e = "lc"}}
InvTermination  == done => \A w \in Widths : \A i \in 1..Len(Out(w)) : \A t \in LineComments :
                              Occurs(Out(w)[i], t) # {} => EndsWithS(Out(w)[i], t)
(* identifiers, dots, argument lists and comments come out once and in source order *)
InvConservation == done => \A w \in Widths : ConcatSq(Out(w), 1, "") = Expected
InvNoDoubleBlank == done => \A w \in Widths : \A i \in 1..Len(Out(w)) :
                              \A p \in Occurs(Out(w)[i], "  ") : p < LTrimPosS(Out(w)[i], 1)
InvIndentUnit   == done => \A w \in Widths : \A i \in 1..Len(Out(w)) :
                              Out(w)[i] = "" \/ (LTrimPosS(Out(w)[i], 1) - 1) % Unit = 0
InvHygiene      == done => \A w \in Widths : \A i \in 1..Len(Out(w)) : Out(w)[i] = "" \/ ~EndsWithS(Out(w)[i], " ")
(* a dot never ends up next to a blank on its line unless a comment sits between (`a. b` / `a .b` are never produced) *)
InvDotTight     == done => \A w \in Widths : \A i \in 1..Len(Out(w)) : Occurs(Out(w)[i], ". ") = {}

(***************************************************************************)
(* Model-level convergence: the rendered array is tokenised back into the  *)
(* chain's child events and laid out again at the same width.              *)
(***************************************************************************)
OpdSet == {OpdTxt(k) : k \in 1..4}
ArgSet == {"(x)", "()", ArgSrc("L")}
CmtB == {BcTxt(k) : k \in 1..3}
CmtL == {LcTxt(k) : k \in 1..3}
TokSet == OpdSet \cup ArgSet \cup CmtB \cup CmtL \cup {".", "#", "(", ")", ",", "z9", "k1", "m2"}
RECURSIVE LexLine(_, _, _)
LexLine(s, i, acc) ==
  IF i > Len(s) THEN acc
  ELSE IF SubSeq(s, i, i) = " "
       THEN LexLine(s, i + 1, IF acc # <<>> /\ acc[Len(acc)] # " " THEN Append(acc, " ") ELSE acc)
       ELSE LET cand == {t \in TokSet : StartsAt(s, t, i)}
                m == CHOOSE t \in cand : \A u \in cand : Len(u) <= Len(t)
            IN LexLine(s, i + Len(m), Append(acc, m))
TokEvent(t) == IF t = " " THEN [e |-> "sp"]
               ELSE IF t \in OpdSet THEN [e |-> "opd", txt |-> t]
               ELSE IF t = "." THEN [e |-> "op", txt |-> t]
               ELSE IF t = "(x)" THEN [e |-> "args", txt |-> t, kind |-> "x"]
               ELSE IF t = "()" THEN [e |-> "args", txt |-> t, kind |-> "e"]
               ELSE IF t = ArgSrc("L") THEN [e |-> "args", txt |-> t, kind |-> "L"]
               ELSE IF t \in CmtB THEN [e |-> "bc", txt |-> t]
               ELSE IF t \in CmtL THEN [e |-> "lc", txt |-> t]
               ELSE [e |-> "delim", txt |-> t]
RECURSIVE LexLines(_, _, _, _)
LexLines(ls, k, acc, pend) ==
  IF k > Len(ls) THEN acc
  ELSE LET toks == LexLine(ls[k], 1, <<>>)
           evs == [j \in 1..Len(toks) |-> TokEvent(toks[j])]
       IN IF toks = <<>> THEN LexLines(ls, k + 1, acc, pend + 1)
          ELSE LexLines(ls, k + 1, (IF acc # <<>> /\ pend > 0
                                    THEN Append(acc, [e |-> "nl", n |-> 1, ind |-> LTrimPosS(ls[k], 1) - 1]) ELSE acc)
                                   \o (IF evs[1].e = "sp" THEN Tail(evs) ELSE evs), 1)
IsDelim(x, t) == x.e = "delim" /\ x.txt = t
(* the children of the array between its parentheses: the chain's events become ONE item whose Doc is the chain laid
   out again; everything else (the separator, `z9`, the trailing comma and the line feeds the first pass produced)
   is handed to the array's own stylist, with the flavor re-derived from the first white space *)
RelexArray(ls, w) ==
  LET all == LexLines(ls, 1, <<>>, 0)
      opens == {i \in 1..Len(all) : IsDelim(all[i], "(")}
      open == CHOOSE i \in opens : \A j \in opens : i <= j
      closes == {i \in 1..Len(all) : IsDelim(all[i], ")")}
      close == CHOOSE i \in closes : \A j \in closes : j <= i
      inner == SubSeq(all, open + 1, close - 1)
      opds == {i \in 1..Len(inner) : inner[i].e = "opd"}
      f == CHOOSE i \in opds : \A j \in opds : i <= j
      z == CHOOSE i \in 1..Len(inner) : IsDelim(inner[i], "z9")
      commas == {i \in 1..Len(inner) : IsDelim(inner[i], ",") /\ i < z}
      sep == CHOOSE i \in commas : \A j \in commas : j <= i
      (* the chain ends with its last operand or argument list; comments after it (before the separator) are the array's *)
      ends == {i \in f..(sep - 1) : inner[i].e \in {"opd", "args"}}
      l == CHOOSE i \in ends : \A j \in ends : j <= i
      map(x) == IF IsDelim(x, ",") THEN [e |-> "comma"] ELSE IF IsDelim(x, "z9") THEN [e |-> "item", txt |-> "z9"] ELSE x
      rest == SubSeq(inner, l + 1, Len(inner))
  IN SubSeq(inner, 1, f - 1) \o << [e |-> "item", txt |-> "", doc |-> ChainOf(SubSeq(inner, f, l), w)] >>
     \o [i \in 1..Len(rest) |-> map(rest[i])]
Out2(w) == LET arr == RelexArray(Out(w), w) IN Format(Whole(ListDoc(CfgOf("array", arr, Unit), arr)), w)
HasKv == \E i \in 1..Len(seq) : seq[i].e = "args" /\ seq[i].kind = "kv"
(* (argument lists of two items are excluded from the re-lexing: their own convergence is ListMC's) *)
InvConvergence == (done /\ ~HasKv) => \A w \in Widths : Out2(w) = Out(w)
(* reachability probe (must be VIOLATED: bin/selftest): some chain is laid out broken at its dots *)
ProbeNeverBroken == done => \A w \in Widths : \A i \in 1..Len(Out(w)) : LTrimPosS(Out(w)[i], 1) > Len(Out(w)[i]) \/ SubSeq(Out(w)[i], LTrimPosS(Out(w)[i], 1), LTrimPosS(Out(w)[i], 1)) # "."

AsFoundF27 == {"F27"}       \* cfg: CONSTANT AsFoundChain <- AsFoundF27 (bin/selftest)

Gen == (done /\ GenOn) => PrintT(<<"GEN", ToJson([inst |-> "dotchain", unit |-> Unit,
                                                 seq |-> [i \in 1..Len(seq) |-> IF seq[i].e = "args" THEN [e |-> "args", txt |-> seq[i].txt] ELSE seq[i]],
                                                 pred |-> [w \in Widths |-> Out(w)]])>>)
=============================================================================
