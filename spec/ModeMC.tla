-------------------------------- MODULE ModeMC --------------------------------
(***************************************************************************)
(* L2 — the `Mode` lattice (Markup / Code / CodeCont) and the optional     *)
(* parentheses of `parenthesize_if_necessary` (parened_expr.rs) across     *)
(* NESTED constructs.  Every construct sets the mode its children are      *)
(* converted in:                                                           *)
(*                                                                         *)
(*   args   `g(k1, X)`   convert_parenthesized_args   -> CodeCont          *)
(*   array  `(k1, X)`    convert_array                -> CodeCont          *)
(*   paren  `(X)`        convert_parenthesized        -> CodeCont          *)
(*   block  `{ X }`      convert_code_block           -> Code              *)
(*   cb     `g[#X]`      convert_content_block / convert_markup_impl       *)
(*                                                    -> Markup            *)
(*                                                                         *)
(* and a chain at the bottom asks the mode it is in whether it may break   *)
(* bare: a binary chain (`convert_binary`) only in CodeCont, a dot chain   *)
(* with calls (`try_convert_dot_chain`) in Code and CodeCont; elsewhere    *)
(* both are wrapped in parentheses that appear only when the chain breaks. *)
(* TLC builds every nesting of up to MaxDepth wrappers over both chains    *)
(* and renders it at every width.                                          *)
(*                                                                         *)
(* InvBreakSafety (C01 / C04): a line that continues a chain lies inside a *)
(* bracket in which a line feed does not end the expression.               *)
(*                                                                         *)
(* AsFoundM (empty in every check; bin/selftest): "CbKeepsMode" — a        *)
(* content block that holds one embedded expression passes its caller's    *)
(* mode on (seeded change C04-C); InvBreakSafety fails.                    *)
(***************************************************************************)
EXTENDS ListLayout, ChainLayout, FlowLayout, MarkupLayout, Json
CONSTANTS MaxDepth, Wrappers, Chains, MaxW, Unit, GenOn, AsFoundM

VARIABLES ws,      \* the wrappers, outermost first
          chain,   \* "bin" | "dot"
          done
vars == <<ws, chain, done>>

Init == ws = <<>> /\ chain \in Chains /\ done = FALSE
AWrap == ~done /\ Len(ws) < MaxDepth /\ \E k \in Wrappers : ws' = Append(ws, k) /\ UNCHANGED <<chain, done>>
(* directly after a hash in markup only a dot chain continues the expression: `#a == b` is `#a` and text *)
Legal == ~(chain = "bin" /\ (ws = <<>> \/ ws[Len(ws)] = "cb"))
AFinish == ~done /\ Legal /\ done' = TRUE /\ UNCHANGED <<ws, chain>>
Next == AWrap \/ AFinish
Spec == Init /\ [][Next]_vars

(***************************************************************************)
(* The chains                                                              *)
(***************************************************************************)
BinSeq == << [e |-> "opd", txt |-> "a1"], [e |-> "sp"], [e |-> "op", txt |-> "=="], [e |-> "sp"], [e |-> "opd", txt |-> "bb2"],
             [e |-> "sp"], [e |-> "op", txt |-> "!="], [e |-> "sp"], [e |-> "opd", txt |-> "cccc3"] >>
BinSrc == "a1 == bb2 != cccc3"
(* `a1.bb2().cccc3()`: two dots, two calls — not the one-line form; ChainStylist with space_around_op = FALSE,
   no_break_single = TRUE, the argument lists glued to the operand before them *)
DotSrc == "a1.bb2().cccc3()"
DotDocM == LET first == T("a1")
               follow == Cat(Cat(Cat(LINE_, T(".")), Cat(T("bb2"), T("()"))), Cat(Cat(LINE_, T(".")), Cat(T("cccc3"), T("()"))))
           IN Group(Cat(first, Nest(Unit, follow)))
BareChain == IF chain = "bin" THEN ChainDoc(BinSeq, Unit) ELSE DotDocM
(* parenthesize_if_necessary / try_convert_dot_chain *)
ChainIn(mode) == IF chain = "bin"
                 THEN (IF mode = "CodeCont" THEN BareChain ELSE OptionalParen(BareChain, Unit))
                 ELSE (IF mode = "Markup" THEN OptionalParen(BareChain, Unit) ELSE BareChain)

(***************************************************************************)
(* The wrappers                                                            *)
(***************************************************************************)
K1 == [e |-> "item", txt |-> "k1"]
Two(d) == << K1, [e |-> "comma"], [e |-> "sp"], [e |-> "item", txt |-> "", doc |-> d] >>
One(d) == << [e |-> "item", txt |-> "", doc |-> d] >>
Blk(d) == << [e |-> "sp"], [e |-> "item", txt |-> "", doc |-> d], [e |-> "sp"] >>
RECURSIVE DocAt(_, _)
DocAt(i, mode) ==
  IF i > Len(ws) THEN ChainIn(mode)
  ELSE LET k == ws[i] IN
       CASE k = "args"  -> Cat(T("g"), ListDoc(CfgOf("args", Two(NIL), Unit), Two(DocAt(i + 1, "CodeCont"))))
         [] k = "array" -> ListDoc(CfgOf("array", Two(NIL), Unit), Two(DocAt(i + 1, "CodeCont")))
         [] k = "paren" -> IF i < Len(ws) /\ ws[i + 1] = "paren" THEN DocAt(i + 1, "CodeCont")       \* one layer of nested parentheses is removed
                           ELSE LET canOmit == i < Len(ws) /\ ws[i + 1] \in {"array", "block"}       \* can_omit: the parentheses vanish when flat
                                IN ListDoc([CfgOf("paren", One(NIL), Unit) EXCEPT !.sty.omitFlat = canOmit], One(DocAt(i + 1, "CodeCont")))
         [] k = "block" -> ListDoc(CfgOf("block", Blk(NIL), Unit), Blk(DocAt(i + 1, "Code")))
         [] k = "cb"    -> LET inner == IF "CbKeepsMode" \in AsFoundM THEN mode ELSE "Markup"
                           IN Cat(T("g"), ContentBlock(<< [e |-> "code", txt |-> "", doc |-> Cat(T("#"), DocAt(i + 1, inner))] >>,
                                                       Unit, FALSE))
Whole == Cat(Cat(T("#"), DocAt(1, "Markup")), HL)
Out(w) == Format(Whole, w)

RECURSIVE SrcAt(_)
SrcAt(i) == IF i > Len(ws) THEN (IF chain = "bin" THEN BinSrc ELSE DotSrc)
            ELSE LET k == ws[i] IN
                 CASE k = "args"  -> "g(k1, " \o SrcAt(i + 1) \o ")"
                   [] k = "array" -> "(k1, " \o SrcAt(i + 1) \o ")"
                   [] k = "paren" -> "(" \o SrcAt(i + 1) \o ")"
                   [] k = "block" -> "{ " \o SrcAt(i + 1) \o " }"
                   [] k = "cb"    -> "g[#" \o SrcAt(i + 1) \o "]"
Src == "#" \o SrcAt(1)

(***************************************************************************)
(* Invariants on the rendered lines                                        *)
(***************************************************************************)
RECURSIVE LTrimPosS(_, _)
LTrimPosS(s, i) == IF i <= Len(s) /\ SubSeq(s, i, i) = " " THEN LTrimPosS(s, i + 1) ELSE i
StartsAt(s, t, i) == i + Len(t) - 1 <= Len(s) /\ SubSeq(s, i, i + Len(t) - 1) = t
EndsWithS(s, t) == Len(t) <= Len(s) /\ SubSeq(s, Len(s) - Len(t) + 1, Len(s)) = t
(* the stack of unclosed brackets after reading s, starting from stack st (cons pairs; "" = none) *)
RECURSIVE Brackets(_, _, _)
Brackets(s, i, st) ==
  IF i > Len(s) THEN st
  ELSE LET c == SubSeq(s, i, i) IN
       Brackets(s, i + 1, IF c \in {"(", "[", "{"} THEN <<c, st>> ELSE IF c \in {")", "]", "}"} /\ st # <<>> THEN st[2] ELSE st)
RECURSIVE StackBefore(_, _, _)
StackBefore(ls, k, st) == IF k = 1 THEN st ELSE Brackets(ls[k - 1], 1, StackBefore(ls, k - 1, st))
Innermost(ls, k) == LET st == StackBefore(ls, k, <<>>) IN IF st = <<>> THEN "" ELSE st[1]
FirstTok(s) == LET p == LTrimPosS(s, 1) IN
               IF StartsAt(s, "==", p) \/ StartsAt(s, "!=", p) THEN "binop" ELSE IF StartsAt(s, ".", p) THEN "dot" ELSE "other"
(* C01 / C04: a line that starts with a binary operator lies directly inside parentheses; a line that starts with a
   dot lies inside parentheses or braces (a method chain may continue on the next line in code), never directly in
   brackets or at the top level of the markup *)
InvBreakSafety == done => \A w \in 0..MaxW : \A k \in 2..Len(Out(w)) :
                     /\ FirstTok(Out(w)[k]) = "binop" => Innermost(Out(w), k) = "("
                     /\ FirstTok(Out(w)[k]) = "dot" => Innermost(Out(w), k) \in {"(", "{"}
(* DelimBalance: every rendering is balanced, and a line that ends with an opening parenthesis of the optional pair
   has its partner *)
InvBalanced    == done => \A w \in 0..MaxW : StackBefore(Out(w), Len(Out(w)) + 1, <<>>) = <<>>
RECURSIVE Squeeze(_, _, _)
Squeeze(s, i, acc) == IF i > Len(s) THEN acc
                      ELSE LET ch == SubSeq(s, i, i) IN Squeeze(s, i + 1, IF ch \in {" ", ",", "(", ")"} THEN acc ELSE acc \o ch)
RECURSIVE ConcatSq(_, _, _)
ConcatSq(ls, i, acc) == IF i > Len(ls) THEN acc ELSE ConcatSq(ls, i + 1, acc \o Squeeze(ls[i], 1, ""))
(* nothing but blanks, commas and parentheses is added or lost *)
InvConservation == done => \A w \in 0..MaxW : ConcatSq(Out(w), 1, "") = Squeeze(Src, 1, "")
InvIndentUnit   == done => \A w \in 0..MaxW : \A i \in 1..Len(Out(w)) :
                      Out(w)[i] = "" \/ (LTrimPosS(Out(w)[i], 1) - 1) % Unit = 0
InvHygiene      == done => \A w \in 0..MaxW : \A i \in 1..Len(Out(w)) : Out(w)[i] = "" \/ ~EndsWithS(Out(w)[i], " ")
(* wide enough, everything is on one line and the optional parentheses are gone *)
InvFlatAtWidth  == done => Len(Out(MaxW)) = 1 \/ Len(Src) > MaxW

Gen == (done /\ GenOn) => PrintT(<<"GEN", ToJson([inst |-> "mode", unit |-> Unit, ws |-> ws, chain |-> chain, src |-> Src,
                                                 pred |-> [w \in 0..MaxW |-> Out(w)]])>>)
=============================================================================
