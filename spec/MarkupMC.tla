------------------------------ MODULE MarkupMC ------------------------------
(***************************************************************************)
(* Design check and behaviour generator for MarkupLayout.tla: every child  *)
(* sequence of a content-block body `#f[...]` up to MaxLen events over     *)
(* {text, #code, blank, line feed, paragraph break, block comment, line    *)
(* comment}.  Environment: no two whitespace children in a row, no         *)
(* `text blank text` (one Text token), no identifier glued to text, a line *)
(* comment is followed by a line feed.                                     *)
(***************************************************************************)
EXTENDS MarkupLayout, FiniteSets, Json
CONSTANTS MaxLen, MaxCmt, MaxW, Unit, GenOn
VARIABLES seq, needNl, done
vars == <<seq, needNl, done>>

TxtOf(k) == CASE k % 3 = 1 -> "w1" [] k % 3 = 2 -> "xx2" [] OTHER -> "y3"
CodeOf(k) == CASE k % 2 = 1 -> "v1" [] OTHER -> "vv2"
BcTxt(k) == CASE k = 1 -> "/* c1 */" [] OTHER -> "/* c2 */"
LcTxt(k) == CASE k = 1 -> "// c1" [] OTHER -> "// c2"
Count(kinds) == Cardinality({i \in 1..Len(seq) : seq[i].e \in kinds})
Last == IF seq = <<>> THEN "none" ELSE seq[Len(seq)].e
LastWs == Last \in {"sp", "nl", "par"}
(* the last non-blank event before a trailing blank *)
BeforeSp == IF Len(seq) >= 2 /\ Last = "sp" THEN seq[Len(seq) - 1].e ELSE "none"

Init == seq = <<>> /\ needNl = FALSE /\ done = FALSE
Emit(ev, nn) == seq' = Append(seq, ev) /\ needNl' = nn /\ done' = FALSE
Room == ~done /\ Len(seq) < MaxLen
ATxt == Room /\ ~needNl /\ Last \notin {"txt", "code"} /\ BeforeSp # "txt"     \* `w1 w2` is one token; `#v1w` one identifier
        /\ Emit([e |-> "txt", txt |-> TxtOf(Count({"txt"}) + 1)], FALSE)
ACode == Room /\ ~needNl /\ Last # "code" /\ Emit([e |-> "code", txt |-> CodeOf(Count({"code"}) + 1)], FALSE)
ASp == Room /\ ~needNl /\ ~LastWs /\ Emit([e |-> "sp"], FALSE)
ANl == Room /\ ~LastWs /\ Emit([e |-> "nl", n |-> 1], FALSE)
APar == Room /\ ~LastWs /\ \E k \in {2, 3} : Emit([e |-> "par", n |-> k], FALSE)
ABc == Room /\ ~needNl /\ Count({"bc", "lc"}) < MaxCmt /\ Emit([e |-> "bc", txt |-> BcTxt(Count({"bc", "lc"}) + 1)], FALSE)
ALc == Room /\ ~needNl /\ Count({"bc", "lc"}) < MaxCmt /\ Emit([e |-> "lc", txt |-> LcTxt(Count({"bc", "lc"}) + 1)], TRUE)
AFinish == ~done /\ ~needNl /\ done' = TRUE /\ UNCHANGED <<seq, needNl>>
Next == ATxt \/ ACode \/ ASp \/ ANl \/ APar \/ ABc \/ ALc \/ AFinish
Spec == Init /\ [][Next]_vars

Whole == Cat(Cat(Cat(T("#"), T("f")), ContentBlock(seq, Unit, FALSE)), HL)
Out(w) == Format(Whole, w)

StartsAt(s, t, i) == i + Len(t) - 1 <= Len(s) /\ SubSeq(s, i, i + Len(t) - 1) = t
Occurs(s, t) == {i \in 1..Len(s) : StartsAt(s, t, i)}
EndsWithS(s, t) == Len(t) <= Len(s) /\ SubSeq(s, Len(s) - Len(t) + 1, Len(s)) = t
RECURSIVE LTrimPosS(_, _)
LTrimPosS(s, i) == IF i <= Len(s) /\ SubSeq(s, i, i) = " " THEN LTrimPosS(s, i + 1) ELSE i
RECURSIVE Squeeze(_, _, _)
Squeeze(s, i, acc) == IF i > Len(s) THEN acc
                      ELSE LET ch == SubSeq(s, i, i) IN Squeeze(s, i + 1, IF ch = " " THEN acc ELSE acc \o ch)
RECURSIVE ConcatSq(_, _, _)
ConcatSq(ls, i, acc) == IF i > Len(ls) THEN acc ELSE ConcatSq(ls, i + 1, acc \o Squeeze(ls[i], 1, ""))
Expected == LET toks == SelectSeq(seq, LAMBDA ev : ev.e \in {"txt", "code", "bc", "lc"})
                RECURSIVE cat(_, _) cat(i, acc) == IF i > Len(toks) THEN acc
                     ELSE cat(i + 1, acc \o (IF toks[i].e = "code" THEN "#" ELSE "") \o Squeeze(toks[i].txt, 1, ""))
            IN "#f[" \o cat(1, "") \o "]"
LineComments == {seq[i].txt : i \in {j \in 1..Len(seq) : seq[j].e = "lc"}}
InvTermination  == done => \A w \in 0..MaxW : \A i \in 1..Len(Out(w)) : \A t \in LineComments :
                              Occurs(Out(w)[i], t) # {} => EndsWithS(Out(w)[i], t)
InvConservation == done => \A w \in 0..MaxW : ConcatSq(Out(w), 1, "") = Expected
InvHygiene      == done => \A w \in 0..MaxW : \A i \in 1..Len(Out(w)) : Out(w)[i] = "" \/ ~EndsWithS(Out(w)[i], " ")
InvIndentUnit   == done => \A w \in 0..MaxW : \A i \in 1..Len(Out(w)) :
                              Out(w)[i] = "" \/ (LTrimPosS(Out(w)[i], 1) - 1) % Unit = 0
(* C08 at model level: pieces of one source line stay on one line in every rendering — the number of lines of
   the body does not depend on the width except for the two edge breaks *)
InteriorBreaks == LET r == Repr(seq) IN
                  IF r.lines = <<>> THEN 0
                  ELSE LET RECURSIVE sum(_) sum(i) == IF i = 0 THEN 0 ELSE r.lines[i].breaks + sum(i - 1) IN sum(Len(r.lines))
InvProseLines   == done => \A w \in 0..MaxW : Len(Out(w)) \in {InteriorBreaks + 1, InteriorBreaks + 2, InteriorBreaks + 3}
(* Model-level convergence: the model's output, tokenised back into child events, laid out again at the same width *)
TxtSet == {TxtOf(k) : k \in 1..3}
CodeSet == {"#" \o CodeOf(k) : k \in 1..2}
CmtSetB == {BcTxt(k) : k \in 1..2}
CmtSetL == {LcTxt(k) : k \in 1..2}
TokSet == TxtSet \cup CodeSet \cup CmtSetB \cup CmtSetL \cup {"#f", "[", "]"}
RECURSIVE LexLine(_, _, _)
LexLine(s, i, acc) ==
  IF i > Len(s) THEN acc
  ELSE IF SubSeq(s, i, i) = " "
       THEN LexLine(s, i + 1, IF acc # <<>> /\ acc[Len(acc)] # " " THEN Append(acc, " ") ELSE acc)
       ELSE LET cand == {t \in TokSet : StartsAt(s, t, i)}
                m == CHOOSE t \in cand : \A u \in cand : Len(u) <= Len(t)
            IN LexLine(s, i + Len(m), Append(acc, m))
TokEvent(t) == IF t = " " THEN [e |-> "sp"]
               ELSE IF t \in TxtSet THEN [e |-> "txt", txt |-> t]
               ELSE IF t \in CodeSet THEN [e |-> "code", txt |-> SubSeq(t, 2, Len(t))]
               ELSE IF t \in CmtSetB THEN [e |-> "bc", txt |-> t]
               ELSE IF t \in CmtSetL THEN [e |-> "lc", txt |-> t]
               ELSE [e |-> "delim", txt |-> t]
RECURSIVE LexLines(_, _, _, _)
LexLines(ls, k, acc, pend) ==
  IF k > Len(ls) THEN acc
  ELSE LET toks == LexLine(ls[k], 1, <<>>)
           evs == [j \in 1..Len(toks) |-> TokEvent(toks[j])]
           ws == IF pend >= 2 THEN [e |-> "par", n |-> pend] ELSE [e |-> "nl", n |-> 1]
       IN IF toks = <<>> THEN LexLines(ls, k + 1, acc, pend + 1)
          ELSE LexLines(ls, k + 1, (IF acc # <<>> /\ pend > 0 THEN Append(acc, ws) ELSE acc) \o evs, 1)
Relex(ls) == LET all == LexLines(ls, 1, <<>>, 0)
                 open == CHOOSE i \in 1..Len(all) : all[i].e = "delim" /\ all[i].txt = "["
                 close == CHOOSE i \in 1..Len(all) : all[i].e = "delim" /\ all[i].txt = "]"
             IN SubSeq(all, open + 1, close - 1)
OutOf(sq, w) == Format(Cat(Cat(Cat(T("#"), T("f")), ContentBlock(sq, Unit, FALSE)), HL), w)
InvConvergence == done => \A w \in 0..MaxW : OutOf(Relex(Out(w)), w) = Out(w)

Gen == (done /\ GenOn) => PrintT(<<"GEN", ToJson([inst |-> "markup", unit |-> Unit, seq |-> seq,
                                                 pred |-> [w \in 0..MaxW |-> Out(w)]])>>)
=============================================================================
