----------------------------- MODULE FlowLayout -----------------------------
(***************************************************************************)
(* L2 — `FlowStylist` (layout/flow.rs) with the driver                     *)
(* `convert_flow_like_iter` (code_flow.rs) and the optional parentheses of *)
(* `parenthesize_if_necessary` / `optional_paren` (parened_expr.rs).       *)
(*                                                                         *)
(* The flow stylist glues the children of a statement-like node with       *)
(* single blanks where both neighbours allow it; a line comment defers a   *)
(* hard line break to the whitespace that follows it.  Modelled for the    *)
(* LetBinding producer (keyword, pattern, `=`, initialiser: all `spaced`). *)
(* Child events: [e |-> "kw"|"pat"|"eq"|"bc"|"lc", txt], [e |-> "init",    *)
(* doc], [e |-> "sp"], [e |-> "nl", n].                                    *)
(***************************************************************************)
EXTENDS DocRender

F0 == [doc |-> NIL, spaceAfter |-> FALSE, atLineStart |-> TRUE, peekLC |-> FALSE]

(* FlowStylist::push_doc *)
PushDoc(f, d, sb, sa) == [f EXCEPT !.doc = Cat(IF sb /\ f.spaceAfter THEN Cat(f.doc, SPACE) ELSE f.doc, d),
                                   !.spaceAfter = sa, !.atLineStart = FALSE]

(* one iteration of convert_flow_like_iter; peek_line_comment is consumed by every child *)
FlowStep(f, ev) ==
  LET atLC == f.peekLC
      g == [f EXCEPT !.peekLC = FALSE] IN
  CASE ev.e = "kw"  -> PushDoc(g, T(ev.txt), TRUE, TRUE)                     \* keyword
    [] ev.e = "bc"  -> PushDoc(g, T(ev.txt), TRUE, TRUE)                     \* push_comment, block
    [] ev.e = "lc"  -> [PushDoc(IF g.atLineStart THEN g ELSE [g EXCEPT !.spaceAfter = TRUE], T(ev.txt), TRUE, FALSE)
                          EXCEPT !.peekLC = TRUE]                            \* push_comment, line: defers the break
    [] ev.e = "nl" /\ atLC -> [PushDoc(g, HL, FALSE, FALSE) EXCEPT !.atLineStart = TRUE]      \* enter_new_line
    [] ev.e \in {"sp", "nl"} -> g                                            \* FlowItem::none()
    [] ev.e \in {"pat", "eq"} -> PushDoc(g, T(ev.txt), TRUE, TRUE)           \* FlowItem::spaced
    [] ev.e = "init" -> PushDoc(g, ev.doc, TRUE, TRUE)                       \* FlowItem::spaced
RECURSIVE FlowRun(_, _, _)
FlowRun(f, seq, i) == IF i > Len(seq) THEN f ELSE FlowRun(FlowStep(f, seq[i]), seq, i + 1)
FlowDoc(seq) == FlowRun(F0, seq, 1).doc

(* optional_paren: parentheses (and the breaks inside them) only when the group does not fit *)
OptionalParen(body, unit) ==
  Group(Cat(Nest(unit, Cat(Alt(Cat(T("("), HL), NIL), body)), Alt(Cat(HL, T(")")), NIL)))
=============================================================================
