----------------------------- MODULE DocRender -----------------------------
(***************************************************************************)
(* L2 — the Doc intermediate representation and the Wadler renderer of the *)
(* `pretty` crate 0.12.4 AS IMPLEMENTED (transcribed from render.rs:        *)
(* `best` / `fitting`), plus `strip_trailing_whitespace` (DESIGN.md §2.2). *)
(*                                                                         *)
(* Two facts about the builder are part of the model because the renderer  *)
(* makes them observable: `append` elides nil on either side, and a hard   *)
(* line takes the indentation of the NEXT command on the stack.            *)
(* The renderer produces a sequence of lines (strings); text length is     *)
(* counted in bytes (the models use ASCII atoms only).                     *)
(***************************************************************************)
EXTENDS Naturals, Integers, Sequences, TLC

NIL == [o |-> "nil"]
T(s) == [o |-> "t", s |-> s, n |-> Len(s)]          \* T("") is a text, not nil
HL == [o |-> "hl"]
Cat(a, b) == IF a = NIL THEN b ELSE IF b = NIL THEN a ELSE [o |-> "cat", a |-> a, b |-> b]
Cat3(a, b, c) == Cat(Cat(a, b), c)
Nest(k, a) == IF a = NIL \/ k = 0 THEN a ELSE [o |-> "nest", k |-> k, a |-> a]
Group(a) == IF a.o \in {"nil", "t", "group"} THEN a ELSE [o |-> "group", a |-> a]
Alt(b, f) == [o |-> "alt", b |-> b, f |-> f]        \* b.flat_alt(f): b when broken, f when flat
Align(a) == IF a = NIL THEN a ELSE [o |-> "align", a |-> a]   \* a.align(): column(|c| nesting(|n| a.nest(c - n))) — indentation := column
Hang(k, a) == Align(Nest(k, a))                      \* a.hang(k) = a.nest(k).align()
SPACE == T(" ")
LINE  == Alt(HL, SPACE)                              \* arena.line()
LINE_ == Alt(HL, NIL)                                \* arena.line_()
Enclose(d, a, b) == Cat(Cat(a, d), b)                \* d.enclose(a, b)
RECURSIVE Rep(_, _)
Rep(d, n) == IF n = 0 THEN NIL ELSE Cat(Rep(d, n - 1), d)          \* repeat_n: nil.append(d)...append(d)
RECURSIVE CatAll(_, _, _)
CatAll(acc, ds, i) == IF i > Len(ds) THEN acc ELSE CatAll(Cat(acc, ds[i]), ds, i + 1)   \* concat / `+=` in a loop
RECURSIVE InterFrom(_, _, _, _)
InterFrom(acc, ds, sep, i) == IF i > Len(ds) THEN acc ELSE InterFrom(Cat(Cat(acc, sep), ds[i]), ds, sep, i + 1)
Inter(ds, sep) == IF ds = <<>> THEN NIL ELSE InterFrom(ds[1], ds, sep, 2)               \* arena.intersperse

RECURSIVE Spaces(_)
Spaces(n) == IF n <= 0 THEN "" ELSE " " \o Spaces(n - 1)

(* explicit stacks as cons pairs <<top, rest>> *)
Top(s) == s[1]
Pop(s) == s[2]
Push(s, x) == <<x, s>>
Push2(s, x, y) == <<y, <<x, s>>>>

RECURSIVE Fit(_, _, _, _, _)      \* fc: docs still to measure; bc: rest of the command stack
Fit(fc, bc, flat, pos, w) ==
  IF fc = <<>> THEN
     IF bc = <<>> THEN TRUE
     ELSE Fit(<<Top(bc).doc, <<>>>>, Pop(bc), FALSE, pos, w)      \* the rest of the stack counts as broken
  ELSE LET d == Top(fc)  r == Pop(fc) IN
     CASE d.o = "nil" -> Fit(r, bc, flat, pos, w)
       [] d.o = "cat" -> Fit(Push2(r, d.b, d.a), bc, flat, pos, w)
       [] d.o = "hl"  -> ~flat                               \* a hard line in flat mode: does not fit
       [] d.o = "t"   -> IF pos + d.n > w THEN FALSE ELSE Fit(r, bc, flat, pos + d.n, w)
       [] d.o = "alt" -> Fit(Push(r, IF flat THEN d.f ELSE d.b), bc, flat, pos, w)
       [] d.o = "nest" -> Fit(Push(r, d.a), bc, flat, pos, w)
       [] d.o = "group" -> Fit(Push(r, d.a), bc, flat, pos, w)
       [] d.o = "align" -> Fit(Push(r, d.a), bc, flat, pos, w)

(* out: <<finished lines, current line>> *)
RECURSIVE Best(_, _, _, _)        \* bc: stack of [ind, mode, doc]
Best(bc, pos, out, w) ==
  IF bc = <<>> THEN Append(out[1], out[2])
  ELSE LET c == Top(bc)  r == Pop(bc)  d == c.doc IN
     CASE d.o = "nil"   -> Best(r, pos, out, w)
       [] d.o = "cat"   -> Best(Push2(r, [c EXCEPT !.doc = d.b], [c EXCEPT !.doc = d.a]), pos, out, w)
       [] d.o = "alt"   -> Best(Push(r, [c EXCEPT !.doc = IF c.mode = "break" THEN d.b ELSE d.f]), pos, out, w)
       [] d.o = "group" -> IF c.mode = "break" /\ Fit(<<d.a, <<>>>>, r, TRUE, pos, w)
                           THEN Best(Push(r, [ind |-> c.ind, mode |-> "flat", doc |-> d.a]), pos, out, w)
                           ELSE Best(Push(r, [c EXCEPT !.doc = d.a]), pos, out, w)
       [] d.o = "nest"  -> Best(Push(r, [ind |-> c.ind + d.k, mode |-> c.mode, doc |-> d.a]), pos, out, w)
       [] d.o = "align" -> Best(Push(r, [ind |-> pos, mode |-> c.mode, doc |-> d.a]), pos, out, w)
       [] d.o = "hl"    -> LET i == IF r = <<>> THEN c.ind ELSE Top(r).ind      \* indentation of the NEXT command
                           IN Best(r, i, <<Append(out[1], out[2]), Spaces(i)>>, w)
       [] d.o = "t"     -> Best(r, pos + d.n, <<out[1], out[2] \o d.s>>, w)

Render(doc, w) == Best(<<[ind |-> 0, mode |-> "break", doc |-> doc], <<>>>>, 0, <<(<<>>), "">>, w)

(* strip_trailing_whitespace on lines: every line right-trimmed; `str::lines` drops one trailing empty
   line; the empty text becomes one empty line *)
RECURSIVE RTrimN(_, _)
RTrimN(s, n) == IF n > 0 /\ SubSeq(s, n, n) \in {" ", "\t"} THEN RTrimN(s, n - 1) ELSE n
RTrimS(s) == SubSeq(s, 1, RTrimN(s, Len(s)))
Strip(ls) == LET k == IF Len(ls) > 1 /\ ls[Len(ls)] = "" THEN Len(ls) - 1 ELSE Len(ls)
             IN [i \in 1..k |-> RTrimS(ls[i])]

Format(doc, w) == Strip(Render(doc, w))

(* the flat width of a doc (what `fits` measures when nothing forces a break) *)
RECURSIVE FlatLen(_)
FlatLen(d) == CASE d.o = "nil" -> 0  [] d.o = "t" -> d.n  [] d.o = "hl" -> 0
                [] d.o = "cat" -> FlatLen(d.a) + FlatLen(d.b)
                [] d.o = "alt" -> FlatLen(d.f)
                [] d.o \in {"nest", "group", "align"} -> FlatLen(d.a)
=============================================================================
