#!/usr/bin/env python3
"""Regenerates MANIFEST.json from the table below (single source of truth)."""
import json, os
V = os.path.dirname(os.path.dirname(os.path.abspath(__file__)))
MC = "model_checking"
CHECKS = {
 "C01": (MC, "TLC trace validation of real (input, output) syntax trees against the TLA+ relation R01 (Norm equality); L2 layout models checked exhaustively", "§6 C01"),
 "C03": (MC, "TLC trace validation: the second Format step of every recorded run must stutter (R03); model-level convergence of the L2 layout models", "§6 C03"),
 "C04": (MC, "TLC trace validation of the parser's error flag on every recorded output (R04); CommentTermination / Glue / DelimBalance invariants on the L2 models", "§6 C04"),
 "C06": (MC, "TLC trace validation of comment kind/text/word-position sequences (R06); comment conservation invariants of the L2 stylist models", "§6 C06"),
 "C08": (MC, "TLC trace validation of per-Markup-node prose signatures (R08, lockstep walk); MarkupLines model", "§6 C08"),
 "C09": (MC, "TLC trace validation of atom/blank/line-feed signatures of every math node (R09); MathLayout model", "§6 C09"),
 "C10": (MC, "TLC trace validation of the literal leaf sequences incl. ast::Raw extraction (R10); Strip/Render LiteralIntegrity", "§6 C10"),
 "C11": (MC, "TLC trace validation of output lines (R11); exhaustive check of Strip.tla postcondition", "§6 C11"),
 "C12": (MC, "TLC trace validation of line indentation against the unit (R12a) and pairwise unit scaling (R12b)", "§6 C12"),
}
NOT_YET = {
 "C02": "not built yet in this round (planned: exploration with the real compiler as logged oracle, DESIGN.md §6 C02)",
 "C05": "not built yet in this round (Pipeline.tla + U-str/U-mut drivers, DESIGN.md §6 C05)",
 "C07": "not built yet in this round (R07 + Attr.tla, DESIGN.md §6 C07)",
 "C13": "not built yet in this round (Range.tla, DESIGN.md §6 C13)",
 "C14": "not built yet in this round (Cli.tla + CliTrace.tla, DESIGN.md §6 C14)",
 "C15": "not built yet in this round (Cli.tla + CliTrace.tla, DESIGN.md §6 C15)",
 "C16": "not built yet in this round (Cli.tla + front-end differential events, DESIGN.md §6 C16)",
 "C17": "not built yet in this round (Session.tla + schedule replay, DESIGN.md §6 C17)",
 "C18": "not built yet in this round (Cost.tla + visit hook, DESIGN.md §6 C18)",
 "C19": "not built yet in this round (R19 + ImportItems.tla, DESIGN.md §6 C19)",
}
def main():
    checks = []
    for pid, (cat, text, ref) in sorted(CHECKS.items()):
        checks.append({
            "property_id": pid,
            "quick_cmd": "bin/check %s quick" % pid,
            "thorough_cmd": "bin/check %s thorough" % pid,
            "evidence_file": "/verif/evidence/%s.json" % pid,
            "replay_cmd_template": "bin/replay {path}",
            "engine": "tlc",
            "level_claimed": {"category": cat, "text": text, "design_ref": "DESIGN.md " + ref},
            "level_note": "trusted: typst-syntax parser as syntax oracle, the copy-only projections of harness/src/proj.rs, TLC; bounded: fixed finite universes (U-fix, U-gap, ...), exhaustive only within the stated bounds",
            "technique": "TLA+ specification checked by TLC + trace validation of real executions (conformance)",
        })
    m = {
        "version": 1,
        "setup_cmd": "bin/setup",
        "hooks": {
            "guard": "--cfg typstyle_verif",
            "enable": "RUSTFLAGS='--cfg typstyle_verif' via /verif/harness/.cargo/config.toml (the harness builds /repo's crates as path dependencies)",
            "baseline_off_cmd": "cd /repo && cargo test --workspace --no-fail-fast --offline",
            "source_commits": [],
            "add_only": True,
        },
        "engines": [
            {"name": "tlc", "path": "/verif/spec", "serves_properties": sorted(CHECKS), "kind_free_text": "TLA+ specifications (L3 contract relations, L2 implementation-shaped models, trace specifications) checked with TLC 1.8"},
            {"name": "vt", "path": "/verif/harness", "serves_properties": sorted(CHECKS), "kind_free_text": "Rust harness: drives the real typstyle code over the fixed universes and projects observations to NDJSON traces"},
        ],
        "checks": checks,
        "not_applicable": [{"property_id": k, "reason": v} for k, v in sorted(NOT_YET.items()) if k not in CHECKS],
        "notes": "See DESIGN.md. Verdicts come only from TLA+ relations evaluated by TLC on recorded executions of the real code; model drift is never a VIOLATION.",
    }
    json.dump(m, open(os.path.join(V, "MANIFEST.json"), "w"), indent=1)
if __name__ == "__main__":
    main()
