#!/usr/bin/env python3
"""Regenerates MANIFEST.json from the table below (single source of truth)."""
import json, os
V = os.path.dirname(os.path.dirname(os.path.abspath(__file__)))
MC = "model_checking"
CHECKS = {
 "C01": (MC, "TLC trace validation of real (input, output) syntax trees against the TLA+ relation R01 (normal-form equality) over the fixed universes; exhaustive TLC design checks of the L2 layout models (ListLayout, FlowLayout+optional parentheses, TableMC: table / grid argument lists) whose behaviours are replayed into the real code", "§6 C01, §0"),
 "C02": ("exploration", "the real Typst compiler is the logged oracle: TLC checks Obs(out) = Obs(in) (pages, pixel digests, metadata or diagnostics) on every (program, distinct formatted output) pair of U-prog; exploration strength because the oracle is outside any model", "§6 C02, §7"),
 "C03": (MC, "TLC trace validation: every second Format step of a recorded run must stutter (R03), at every width where the layout changes; L2 models ListLayout / ChainLayout / MarkupLayout / DotChainMC (one-line form vs breakable dot chain, source indentation as an input dimension) / CommentMC / TableMC checked exhaustively incl. model-level convergence (output re-lexed and laid out again) and replayed", "§6 C03"),
 "C04": (MC, "TLC trace validation of the parser's error flag on every recorded output (R04), widths 0 and 1 always included; CommentTermination / BreakSafety / DelimBalance invariants on the L2 models (ListLayout, ChainLayout, FlowLayout, DotChainMC) in every rendering", "§6 C04"),
 "C05": (MC, "Pipeline.tla (no action for panic / abort / time-out; refuses iff erroneous) model-checked incl. termination; every call of U-str (exhaustive to length 3/4 over 28 critical characters), U-mut, U-nest, U-num (extreme values of the literal whose value the formatter reads) and degenerate documents validated against it with the phase-hook trace", "§6 C05"),
 "C06": (MC, "TLC trace validation of comment kind / normalised text / word-position sequences and of the word stream (R06); comment conservation invariants of the L2 stylist models (incl. CommentMC: block comment alignment, DotChainMC, TableMC, ImportMC) in every rendering", "§6 C06"),
 "C07": (MC, "TLC trace validation of R07 (text of the node after the k-th directive, optional wrappers skipped) with directives at every leaf boundary of every seed", "§6 C07"),
 "C08": (MC, "TLC trace validation of per-Markup-node prose signatures (R08, lockstep walk); MarkupLayout model (line collector + boundaries) checked exhaustively and replayed", "§6 C08"),
 "C09": (MC, "TLC trace validation of atom / blank / line-feed signatures of every Math / MathDelimited / Equation node (R09)", "§6 C09"),
 "C10": (MC, "TLC trace validation of the literal leaf sequences incl. typst's own ast::Raw extraction (R10)", "§6 C10"),
 "C11": (MC, "TLC trace validation of the output lines (R11) on every output of every universe; Strip/Render hygiene invariant of the L2 models", "§6 C11"),
 "C12": (MC, "TLC trace validation of line indentation against the unit (R12a, every width) and of pairwise unit scaling at width 10^4 (R12b, units 2/3/5/8); IndentUnit invariant of the L2 models (ListLayout, DotChainMC, CommentMC)", "§6 C12"),
 "C13": (MC, "TLC trace validation of the R13 contract (no panic, covering node on a node boundary, refusal only for erroneous sources, splice parses and is R01-equivalent) on all (start, end) pairs of small documents incl. ends past the text; RangeMC.tla (clamp, trim, innermost covering formattable node, refusal) model-checked over all trees <= 3/4 nodes x all texts x all ranges", "§6 C13"),
 "C14": (MC, "Cli.tla: the code-shaped driver model satisfies the C14 contract in every state for all trees / command lines within the bounds (TLC, exhaustive, any directory order); TLC-generated scenarios are run against the real binary and validated by TraceCli (read-only, exit status, silence, syscall trace)", "§6 C14-C16"),
 "C15": (MC, "Cli.tla contract (write exactly where allowed — regular files only, symbolic links and their targets untouched —, exactly the library's text, failures reported and isolated, second run a no-op) model-checked and validated on real runs incl. strace write-opens / read order", "§6 C14-C16"),
 "C16": (MC, "Cli.tla stdout contract on real runs + front-end differential: file/stdin/three files/-i/format-all/format_with_width against the library byte for byte over sources x the option grid (R16)", "§6 C14-C16"),
 "C17": (MC, "Session.tla (no shared variable; Deterministic) model-checked; its interleavings of the pipeline phases are replayed with real threads gated at the phase hook; sequential, free-running and second-process histories validated by TraceSession", "§6 C17"),
 "C18": (MC, "Cost.tla (BoundedVisits, with the try-then-fallback anti-pattern as vacuity guard) model-checked; visit logs of the real code (hook H1) on every nesting family to depth 48/200 validated against it", "§6 C18"),
 "C19": (MC, "TLC trace validation of R19 on (input, output with reordering off, output with reordering on) triples of all import seeds with trivia at every boundary; ImportMC.tla (reorder guard, sort of all flattened children, bound names) model-checked with reordering off and on and replayed into the real code under both settings", "§6 C19"),
}
NOT_YET = {}
def main():
    checks = []
    for pid, (cat, text, ref) in sorted(CHECKS.items()):
        checks.append({
            "property_id": pid,
            "quick_cmd": "bin/check %s quick" % pid,
            "thorough_cmd": "bin/check %s thorough" % pid,
            "evidence_file": "/verif/evidence/%s.json" % pid,
            "replay_cmd_template": "bin/replay {path}",
            "engine": "tlc",
            "level_claimed": {"category": cat, "text": text, "design_ref": "DESIGN.md " + ref},
            "level_note": "trusted: typst-syntax parser as syntax oracle, the copy-only projections of harness/src/proj.rs, TLC; bounded: fixed finite universes (U-fix, U-gap, ...), exhaustive only within the stated bounds",
            "technique": "TLA+ specification checked by TLC + trace validation of real executions (conformance)",
        })
    m = {
        "version": 1,
        "setup_cmd": "bin/setup",
        "hooks": {
            "guard": "--cfg typstyle_verif",
            "enable": "RUSTFLAGS='--cfg typstyle_verif' via /verif/harness/.cargo/config.toml (the harness builds /repo's crates as path dependencies)",
            "baseline_off_cmd": "cd /repo && cargo test --workspace --no-fail-fast --offline",
            "source_commits": ["c8a0a81"],
            "add_only": True,
        },
        "engines": [
            {"name": "tlc", "path": "/verif/spec", "serves_properties": sorted(CHECKS), "kind_free_text": "TLA+ specifications (L3 contract relations, L2 implementation-shaped models, trace specifications) checked with TLC 1.8"},
            {"name": "vt", "path": "/verif/harness", "serves_properties": sorted(CHECKS), "kind_free_text": "Rust harness: drives the real typstyle code over the fixed universes and projects observations to NDJSON traces"},
        ],
        "checks": checks,
        "not_applicable": [{"property_id": k, "reason": v} for k, v in sorted(NOT_YET.items()) if k not in CHECKS],
        "notes": "See DESIGN.md. Verdicts come only from TLA+ relations evaluated by TLC on recorded executions of the real code; model drift is never a VIOLATION.",
    }
    json.dump(m, open(os.path.join(V, "MANIFEST.json"), "w"), indent=1)
if __name__ == "__main__":
    main()
