#!/usr/bin/env python3
"""bin/selftest — the binding and the invariants are demonstrated, not assumed (DESIGN.md §11).

1. As-found models: each L2 model with the pre-fix behaviour of one repaired defect switched on must violate the
   design invariant that corresponds to the defect (the invariants are able to fail; the defects are visible in the
   model without running the code).
2. Trace corruption: recorded traces of the real code with one field corrupted (a leaf text flipped, two comments
   swapped, an error flag set, an exit status changed, a write event added under --check, a result digest changed)
   must be rejected by the corresponding relation / contract conjunct — and the uncorrupted trace accepted.
Not a registered check; exit 0 iff every expectation is met.
"""
import copy
import glob
import json
import os
import sys

sys.path.insert(0, os.path.dirname(os.path.abspath(__file__)))
import common as C  # noqa: E402
import beh  # noqa: E402

FAIL = []


def expect(name, cond, detail=""):
    print("%-72s %s" % (name, "ok" if cond else "FAILED " + detail))
    if not cond:
        FAIL.append(name)


def as_found_models(wd):
    cases = [("args", "AsFoundF06", "InvConvergence", 5), ("eq", "AsFoundF09a", "InvTermination", 5),
             ("args", "AsFoundF10", "InvConvergence", 6), ("args", "AsFoundF20", "InvConvergence", 5)]
    for inst, ov, inv, ml in cases:
        cfg = beh.LIST_CFG % (inst, ml, 1 if inst == "eq" else 3, 2, 3, 24, 2, "FALSE", inv) + "CONSTANT AsFound <- %s\n" % ov
        r = C.model_check("ListMC", cfg, os.path.join(wd, "af-" + ov), workers=4, xmx="4g", timeout=900)
        expect("ListMC[%s] with %s violates %s" % (inst, ov, inv), (not r["ok"]) and ("Invariant %s is violated" % inv) in r["out"])
    cfg = beh.LIST_CFG % ("args", 5, 3, 2, 3, 24, 2, "FALSE", "InvConvergence InvTermination")
    r = C.model_check("ListMC", cfg, os.path.join(wd, "af-none"), workers=4, xmx="4g", timeout=900)
    expect("ListMC[args] as repaired satisfies InvConvergence, InvTermination", r["ok"])
    cfg = beh.CHAIN_CFG % (7, 3, 2, 30, 2, "FALSE", "InvConvergence") + "CONSTANT AsFoundChain <- AsFoundF27\n"
    r = C.model_check("ChainMC", cfg, os.path.join(wd, "af-chain-f27"), workers=4, xmx="4g", timeout=900)
    expect("ChainMC with F27 as found violates the whole-array InvConvergence", (not r["ok"]) and "Invariant InvConvergence is violated" in r["out"])
    cfg = beh.CHAIN_CFG % (6, 3, 2, 30, 2, "FALSE", "ProbeConvergenceVacuous")
    r = C.model_check("ChainMC", cfg, os.path.join(wd, "af-chain-probe"), workers=4, xmx="4g", timeout=900)
    expect("ChainMC: the antecedent of InvConvergence is reachable (probe violated)", (not r["ok"]) and "ProbeConvergenceVacuous is violated" in r["out"])
    # seeded-change classes as model switches: the dot-chain estimate taken from the source text (C03-B / C03-C), the
    # comment alignment that counts whitespace-only lines (C03-A); the as-written models satisfy the same invariant
    dot = beh.DOT_CFG % (7, 2, 1, 1, '"x", "L"', "0, 14", ", ".join(map(str, beh.DOT_WIDTHS)), 2, "FALSE", "InvConvergence")
    r = C.model_check("DotChainMC", dot.replace("EstFromSource = FALSE", "EstFromSource = TRUE"), os.path.join(wd, "af-dot"),
                      workers=4, xmx="4g", timeout=900)
    expect("DotChainMC with the estimate taken from the source text violates InvConvergence",
           (not r["ok"]) and "Invariant InvConvergence is violated" in r["out"])
    r = C.model_check("DotChainMC", dot.replace("InvConvergence", "ProbeNeverBroken"), os.path.join(wd, "af-dot-probe"),
                      workers=4, xmx="4g", timeout=900)
    expect("DotChainMC: some chain is laid out broken at its dots (probe violated)",
           (not r["ok"]) and "ProbeNeverBroken is violated" in r["out"])
    dot2 = beh.DOT_CFG % (7, 2, 2, 0, '"x"', "0", "0, 20, 40", 2, "FALSE", "InvConvergence")
    r = C.model_check("DotChainMC", dot2 + "CONSTANT AsFoundChain <- AsFoundF27\n", os.path.join(wd, "af-dot-f27"), workers=4, xmx="4g", timeout=900)
    expect("DotChainMC with F27 as found (attached comments not spaced) violates InvConvergence",
           (not r["ok"]) and "Invariant InvConvergence is violated" in r["out"])
    md = beh.MODE_CFG % (2, 30, 2, "FALSE", "InvBreakSafety")
    r = C.model_check("ModeMC", md.replace("AsFoundM = {}", 'AsFoundM = {"CbKeepsMode"}'), os.path.join(wd, "af-mode"), workers=4, xmx="4g", timeout=900)
    expect("ModeMC with a content block that keeps its caller's mode (seeded change C04-C) violates InvBreakSafety",
           (not r["ok"]) and "Invariant InvBreakSafety is violated" in r["out"])
    for unit, want in ((2, True), (4, False)):
        r = C.model_check("ItemMC", beh.ITEM_CFG % (2, 4, unit, "FALSE", "InvNestingInline"), os.path.join(wd, "af-item-%d" % unit),
                          workers=2, xmx="2g", timeout=600)
        expect("ItemMC: `- - a` shapes keep their nesting at unit 2, not at unit 4 (recorded defect G04) [unit %d]" % unit, r["ok"] == want)
    cm = beh.COMMENT_CFG % (2, "0, 1, 3, 6", 16, 2, "FALSE", "InvConvergence")
    r = C.model_check("CommentMC", cm.replace("AsFoundC = {}", 'AsFoundC = {"S03A"}'), os.path.join(wd, "af-cmt"),
                      workers=4, xmx="4g", timeout=900)
    expect("CommentMC counting whitespace-only lines in the common indentation violates InvConvergence",
           (not r["ok"]) and "Invariant InvConvergence is violated" in r["out"])
    for sw in ("FirstIdent", "KeyName"):
        im = beh.IMPORT_CFG % ('"a", "b", "ma"', 2, 0, 0, "0, 40", 2, "FALSE", "InvAll")
        r = C.model_check("ImportMC", im.replace("AsFoundI = {}", 'AsFoundI = {"%s"}' % sw), os.path.join(wd, "af-imp-" + sw),
                          workers=4, xmx="4g", timeout=900)
        expect("ImportMC with the bound name taken as %s violates InvAll (guard)" % sw,
               (not r["ok"]) and "Invariant InvAll is violated" in r["out"])
    tabcfg = (beh.COMMENT_CFG % (2, "0, 1, 3, 6", 16, 2, "FALSE", "InvTextKept InvRelative InvHygiene InvConvergence")).replace(
        'MidBodies = {"c1", "* s1", ""}', 'MidBodies <- MidBodiesTab')
    r = C.model_check("CommentMC", tabcfg, os.path.join(wd, "af-cmt-tab-ok"), workers=4, xmx="4g", timeout=900)
    expect("CommentMC with a tab-only comment line satisfies its invariants (code as repaired by F29)", r["ok"])
    r = C.model_check("CommentMC", tabcfg.replace("AsFoundC = {}", 'AsFoundC = {"F29"}'), os.path.join(wd, "af-cmt-tab"), workers=4, xmx="4g", timeout=900)
    expect("CommentMC with F29 as found (a tab-only line counts) violates InvConvergence",
           (not r["ok"]) and "Invariant InvConvergence is violated" in r["out"])
    cfg = beh.MATHDELIM_CFG % (5, 2, 24, 2, "FALSE", "FALSE", "InvLineFeedsKept")
    r = C.model_check("MathDelimMC", cfg, os.path.join(wd, "af-mathdelim"), workers=4, xmx="4g", timeout=900)
    expect("MathDelimMC[inline] exhibits the recorded defect G07 (InvLineFeedsKept violated)",
           (not r["ok"]) and "InvLineFeedsKept is violated" in r["out"])
    for rf, rc, what in [("FALSE", "TRUE", "F03 format-all dot root"), ("TRUE", "FALSE", "F05 read failure not counted")]:
        cfg = ("SPECIFICATION Spec\nINVARIANTS TypeOK Contract\nCHECK_DEADLOCK FALSE\nCONSTANTS MaxPresent = 2\n MaxArgs = 1\n"
               " RootFixed = %s\n ReadFailCounted = %s\n DetWalk = TRUE\n LinkFollowed = FALSE\n" % (rf, rc))
        r = C.model_check("Cli", cfg, os.path.join(wd, "af-cli-" + rf + rc), workers=4, xmx="4g", timeout=900)
        expect("Cli.tla as found (%s) violates Contract" % what, (not r["ok"]) and "Invariant Contract is violated" in r["out"])
    cfg = ("SPECIFICATION Spec\nINVARIANTS TypeOK Contract\nCHECK_DEADLOCK FALSE\nCONSTANTS MaxPresent = 2\n MaxArgs = 1\n"
           " RootFixed = TRUE\n ReadFailCounted = TRUE\n DetWalk = TRUE\n LinkFollowed = TRUE\n")
    r = C.model_check("Cli", cfg, os.path.join(wd, "af-cli-link"), workers=4, xmx="4g", timeout=900)
    expect("Cli.tla with format-all following symbolic links (seeded change C15-C) violates Contract",
           (not r["ok"]) and "Invariant Contract is violated" in r["out"])
    rng = "SPECIFICATION Spec\nCONSTANTS TextLen = 3\n MaxNodes = 2\n TrimFirst = %s\nINVARIANTS InvNoPanic InvCover InvInnermost InvRefuse InvTrim\nCHECK_DEADLOCK FALSE\n"
    r = C.model_check("RangeMC", rng % "TRUE", os.path.join(wd, "af-range"), workers=2, xmx="2g", timeout=600)
    expect("RangeMC as found before F04 (trim before clamp) violates InvNoPanic", (not r["ok"]) and "InvNoPanic is violated" in r["out"])
    r = C.model_check("RangeMC", rng % "FALSE", os.path.join(wd, "af-range-ok"), workers=2, xmx="2g", timeout=600)
    expect("RangeMC as repaired satisfies the range contract", r["ok"])
    cost = ("SPECIFICATION Spec\nCONSTANTS Depth = 3\n Branch = 2\n B = 4\n AntiPattern = TRUE\nINVARIANTS BoundedVisits\nCHECK_DEADLOCK FALSE\n")
    r = C.model_check("Cost", cost, os.path.join(wd, "af-cost"), workers=2, xmx="2g", timeout=300)
    expect("Cost.tla with the try-then-fallback anti-pattern violates BoundedVisits", (not r["ok"]) and "BoundedVisits is violated" in r["out"])


def corrupt_fmt(wd):
    C.build_harness()
    rec = os.path.join(wd, "rec")
    C.record(rec, universe="gap", single="0/1", pair="0/1", seed_tags="comment,call", widths="0,80", tabs="2",
             parts="tree,flat,lines", passes="true", shards=1)
    evs = [json.loads(l) for l in open(os.path.join(rec, "shard-00.ndjson"))]
    evs = [e for e in evs if e.get("outcome") == "ok" and not e["oerr"]]
    # prefer events with two different comments (needed by the R06 corruption), then fill up
    def two_cmts(e):
        c = [x["t"] for x in e["pout"]["lv"] if x["k"] in ("LineComment", "BlockComment")]
        return len(set(c)) >= 2
    evs = ([e for e in evs if two_cmts(e)][:30] + [e for e in evs if not two_cmts(e)])[:60]

    def first_leaf(t, pred):
        if not t.get("inner"):
            return t if pred(t) else None
        for c in t.get("c", []):
            r = first_leaf(c, pred)
            if r is not None:
                return r
        return None

    cases = {}
    # R01: flip the text of an identifier leaf of the output tree
    c = []
    for e in evs:
        e2 = copy.deepcopy(e)
        leaf = first_leaf(e2["out"], lambda t: t["k"] == "Ident")
        if leaf is not None:
            leaf["t"] += "X"
            c.append(e2)
    cases["R01"] = c
    # R04: set the parser's error flag
    cases["R04"] = [dict(copy.deepcopy(e), oerr=True) for e in evs]
    # R03: change the digest of the second pass
    cases["R03"] = [dict(copy.deepcopy(e), s2=["0" * 24]) for e in evs]
    # R06: swap the first two comments of the output leaf stream (only where they differ)
    c = []
    for e in evs:
        e2 = copy.deepcopy(e)
        idx = [i for i, x in enumerate(e2["pout"]["lv"]) if x["k"] in ("LineComment", "BlockComment")]
        if len(idx) >= 2 and e2["pout"]["lv"][idx[0]]["t"] != e2["pout"]["lv"][idx[1]]["t"]:
            a, b = idx[0], idx[1]
            e2["pout"]["lv"][a], e2["pout"]["lv"][b] = e2["pout"]["lv"][b], e2["pout"]["lv"][a]
            c.append(e2)
    cases["R06"] = c
    # R10: change a literal
    c = []
    for e in evs:
        e2 = copy.deepcopy(e)
        lits = [x for x in e2["pout"]["lv"] if x["k"] in ("Int", "Ident", "Str")]
        if lits:
            lits[0]["t"] += "9"
            c.append(e2)
    cases["R10"] = c
    # R11: a line ends with a blank
    c = []
    for e in evs:
        e2 = copy.deepcopy(e)
        if e2["lines"] and e2["lines"][0]["n"] > 0:
            e2["lines"][0]["last"] = 32
            c.append(e2)
    cases["R11"] = c
    # R12a: odd indentation on a non-exempt line
    c = []
    for e in evs:
        e2 = copy.deepcopy(e)
        ok = [i for i, ln in enumerate(e2["lines"]) if ln["n"] > 0 and not any(s["a"] < i + 1 <= s["b"] for s in e2["ml"])]
        if ok:
            e2["lines"][ok[0]]["ind"] += 1
            c.append(e2)
    cases["R12a"] = c
    # the uncorrupted trace is accepted by all of them
    base = os.path.join(wd, "base.ndjson")
    with open(base, "w") as f:
        for e in evs:
            f.write(json.dumps(e) + "\n")
    rels = sorted(cases)
    consts = "CONSTANT Rels = {%s}\n" % ", ".join('"%s"' % r for r in rels)
    r = C.validate_traces("TraceFmt", consts, [base], os.path.join(wd, "val-base"))
    known = len(r["viol"])
    expect("uncorrupted trace: %d events, violations only from listed defects" % len(evs), known <= len(evs) // 3, str(known))
    for rel, cs in cases.items():
        p = os.path.join(wd, "corrupt-%s.ndjson" % rel)
        with open(p, "w") as f:
            for e in cs:
                f.write(json.dumps(e) + "\n")
        r = C.validate_traces("TraceFmt", 'CONSTANT Rels = {"%s"}\n' % rel, [p], os.path.join(wd, "val-" + rel))
        ids = {v["id"] for v in r["viol"]}
        expect("%s rejects %d corrupted events" % (rel, len(cs)), len(cs) > 0 and all(e["id"] in ids for e in cs),
               "rejected %d of %d" % (len(ids), len(cs)))


def corrupt_cli(wd):
    binp, _ = C.build_cli()
    scen = []
    mk = lambda fs, inv: dict(id="st%d" % len(scen), fs0={s: {"cls": fs.get(s, "A"), "ver": 0} for s in SLOTS}, inv=inv,
                              pred={"exit": -1})
    SLOTS = ["w/a.typ", "w/b.typ", "w/n.txt", "w/.h.typ", "w/s/c.typ", "w/.g/e.typ", "w/x.typ/f.typ", "w/.r/k.typ", "w/.r/s/m.typ"]
    scen.append(mk({"w/a.typ": "U"}, {"kind": "list", "mode": "check", "args": ["w/a.typ"]}))
    scen.append(mk({"w/a.typ": "U", "w/b.typ": "F"}, {"kind": "list", "mode": "inplace", "args": ["w/a.typ", "w/b.typ"]}))
    scen[-1]["id"] = "st-inplace-3"
    scen.append(mk({"w/a.typ": "U"}, {"kind": "list", "mode": "stdout", "args": ["w/a.typ"]}))
    sp = os.path.join(wd, "scen.ndjson")
    with open(sp, "w") as f:
        for s in scen:
            f.write(json.dumps(s) + "\n")
    d = os.path.join(wd, "rec-cli")
    C.run([C.VT, "cli", "--scen", sp, "--bin", binp, "--outdir", d, "--shards", "1", "--work", os.path.join(wd, "scratch"),
           "--strace-every", "1"], timeout=600)
    evs = [json.loads(l) for l in open(os.path.join(d, "shard-00.ndjson"))]
    consts0 = "CONSTANTS MaxPresent = 9\n MaxArgs = 3\n RootFixed = TRUE\n ReadFailCounted = TRUE\n DetWalk = FALSE\n"

    def run(events, conj, name):
        p = os.path.join(wd, name + ".ndjson")
        with open(p, "w") as f:
            for e in events:
                f.write(json.dumps(e) + "\n")
        r = C.validate_traces("TraceCli", consts0 + "CONSTANT Conj = {%s}\n" % ", ".join('"%s"' % c for c in conj), [p],
                              os.path.join(wd, "val-" + name), specname="Spec2")
        return r["viol"]

    allc = ["CheckReadOnly", "CheckExit", "CheckSilent", "OnlyWhereAllowed", "WriteExactly", "Reported", "CleanExit",
            "SecondRunNoop", "StdoutExact", "WriteOpensAllowed", "ReadsFollowArgs"]
    expect("uncorrupted CLI runs accepted by the whole contract", run(evs, allc, "cli-base") == [])
    e = copy.deepcopy(evs[0]); e["exit"] = 0
    expect("CheckExit rejects a changed exit status", len(run([e], ["CheckExit"], "cli-exit")) == 1)
    e = copy.deepcopy(evs[0]); e["fs"]["w/a.typ"] = {"eq": "fmt", "mtime": True}; e["fs1"] = e["fs"]
    expect("CheckReadOnly rejects a write under --check", len(run([e], ["CheckReadOnly"], "cli-ro")) == 1)
    e = copy.deepcopy(evs[0]); e["sys"].append({"op": "wopen", "path": "w/a.typ", "ok": True})
    expect("WriteOpensAllowed rejects a write-open under --check", len(run([e], ["WriteOpensAllowed"], "cli-wopen")) == 1)
    e = copy.deepcopy(evs[2]); e["fs"]["w/a.typ"] = {"eq": "same", "mtime": False}; e["fs1"] = e["fs"]
    if e["fs0"]["w/a.typ"]["cls"] == "U":
        expect("WriteExactly rejects a missing write-back", len(run([e], ["WriteExactly"], "cli-nowrite")) == 1)
    else:
        print("(WriteExactly corruption skipped: the unformatted variant is a fixed point under this scenario's style)")
    e = copy.deepcopy(evs[2]); e["fs"]["w/b.typ"] = {"eq": "same", "mtime": True}; e["fs1"] = e["fs"]
    expect("OnlyWhereAllowed rejects a touched formatted file", len(run([e], ["OnlyWhereAllowed"], "cli-touch")) == 1)
    e = copy.deepcopy(evs[4]); e["stdout"] = e["stdout"][:-1]
    expect("StdoutExact rejects a truncated stdout", len(run([e], ["StdoutExact"], "cli-stdout")) == 1)


def main():
    wd = C.fresh_dir(os.path.join(C.WORK, "selftest"))
    as_found_models(wd)
    corrupt_fmt(wd)
    corrupt_cli(wd)
    print("\nselftest: %d expectation(s) failed" % len(FAIL) if FAIL else "\nselftest: all expectations met")
    return 1 if FAIL else 0


if __name__ == "__main__":
    try:
        sys.exit(main())
    except C.ToolError as e:
        print("TOOL-ERROR", str(e)[:3000])
        sys.exit(2)
