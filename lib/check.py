#!/usr/bin/env python3
"""bin/check <property> <quick|thorough>  — see DESIGN.md §10.

Exit 0: the property held on everything explored (known findings are printed, not counted).
Exit 1: at least one `VIOLATION property=<id> replay=<path>` line was printed.
Exit 2: tool failure (build, TLC crash, time-out) — never a VIOLATION.
"""
import glob
import json
import os
import sys
import time

sys.path.insert(0, os.path.dirname(os.path.abspath(__file__)))
import common as C  # noqa: E402
import props  # noqa: E402


def main():
    if len(sys.argv) < 3:
        print(__doc__)
        sys.exit(2)
    prop, tier = sys.argv[1], sys.argv[2]
    seed = int(os.environ.get("VERIF_SEED", "0") or 0)
    if tier not in ("quick", "thorough"):
        print("tier must be quick or thorough")
        sys.exit(2)
    if prop not in props.TABLE:
        print("unknown property", prop)
        sys.exit(2)
    t0 = time.time()
    try:
        ctx = props.Run(prop, tier, seed)
        C.log("building harness from", C.REPO)
        ctx.build_s = C.build_harness()
        props.TABLE[prop](ctx)
        rc = ctx.finish(time.time() - t0)
    except C.ToolError as e:
        print("TOOL-ERROR property=%s %s" % (prop, str(e)[:4000]))
        sys.exit(2)
    sys.exit(rc)


if __name__ == "__main__":
    main()
