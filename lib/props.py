"""Per-property check definitions (DESIGN.md §6)."""
import glob
import json
import os
import time

import common as C


class Run:
    def __init__(self, prop, tier, seed):
        self.prop, self.tier, self.seed = prop, tier, seed
        self.quick = tier == "quick"
        self.work = C.fresh_dir(os.path.join(C.WORK, "%s-%s" % (prop, tier)))
        self.build_s = 0.0
        self.recdirs = []
        self.rec_summaries = []
        self.viol = []            # dicts with r, id, sha, tab, bl, ro, w (+ optional extra)
        self.states = 0
        self.transitions = 0
        self.traces = 0
        self.events = 0
        self.checked = 0
        self.design = []          # [{spec, states, transitions, ok}]
        self.samples = []
        self.extra = {}
        self.assumptions = [
            "typst-syntax 0.13.1 (parser, is_newline, ast::Raw) is the oracle for syntax",
            "the projections in harness/src/proj.rs copy and never compare",
            "TLC evaluates the TLA+ relations correctly",
        ]
        self.level = "model_checking"
        self.nontrivial = 0
        self.rule = ""

    # -- recording + trace validation -------------------------------------------------
    def record(self, name, **kw):
        d = os.path.join(self.work, "rec-" + name)
        kw.setdefault("seed", self.seed)
        kw.setdefault("shards", 12)
        t = time.time()
        s = C.record(d, **kw)
        C.log("recorded %s: %d elements, %d events, %d calls in %.1fs" % (
            name, s["elements"], s["events"], s["format_calls"], time.time() - t))
        self.recdirs.append(d)
        self.rec_summaries.append(dict(name=name, **{k: s[k] for k in (
            "universe", "elements", "events", "format_calls", "nontrivial_events", "universe_stats")}))
        self.nontrivial += s["nontrivial_events"]
        for x in s["samples"]:
            if len(self.samples) < 6:
                self.samples.append(x)
        return d

    def validate(self, spec, rels, dirs=None, jobs=10, xmx="3g", consts=None, specname="Spec"):
        dirs = dirs or self.recdirs
        shards = []
        for d in dirs:
            shards += sorted(glob.glob(os.path.join(d, "shard-*.ndjson")))
        if consts is None:
            consts = "CONSTANT Rels = {%s}\n" % ", ".join('"%s"' % r for r in rels)
        t = time.time()
        r = C.validate_traces(spec, consts, shards, os.path.join(self.work, "val-" + spec), jobs=jobs, xmx=xmx,
                              specname=specname)
        C.log("validated %d events (%d applicable) in %d traces with %s %s: %d violations, %.1fs" % (
            r["events"], r["checked"], r["traces"], spec, rels, len(r["viol"]), time.time() - t))
        self.states += r["states"]
        self.transitions += r["transitions"]
        self.traces += r["traces"]
        self.events += r["events"]
        self.checked += r["checked"]
        self.viol += r["viol"]
        return r

    # -- design checks (L2, exhaustive) -------------------------------------------------
    def design_check(self, spec, cfg_text, workers=8, xmx="6g", timeout=1500, must_hold=True):
        t = time.time()
        r = C.model_check(spec, cfg_text, os.path.join(self.work, "mc-" + spec), workers=workers,
                          xmx=xmx, timeout=timeout)
        C.log("design check %s: ok=%s states=%d transitions=%d %.1fs" % (
            spec, r["ok"], r["states"], r["transitions"], time.time() - t))
        self.design.append(dict(spec=spec, ok=r["ok"], states=r["states"], transitions=r["transitions"]))
        self.states += r["states"]
        self.transitions += r["transitions"]
        if must_hold and not r["ok"]:
            with open(os.path.join(self.work, "mc-%s.log" % spec), "w") as f:
                f.write(r["out"])
            raise C.ToolError("design check %s failed (model-level; not a property verdict)\n%s" % (
                spec, r["out"][-3000:]))
        return r

    # -- verdict ------------------------------------------------------------------------
    def finish(self, wall):
        prop = self.prop
        known = C.known_index(prop)
        inputs = C.load_inputs(self.recdirs)
        new, hits = [], {}
        for v in self.viol:
            k = v.get("key") or C.viol_key(v)
            g = C.known_lookup(known, k)
            if g is not None:
                hits.setdefault(g, []).append(v)
            else:
                new.append(v)
        for g, vs in sorted(hits.items()):
            print("KNOWN-FINDING: property=%s group=%s instances=%d e.g. %s" % (prop, g, len(vs), vs[0]["id"]))
        if os.environ.get("VERIF_TRIAGE"):
            # maintainer mode (bin/triage): dump every unlisted violation with its input; never used by a check
            td = os.path.join(C.WORK, "triage")
            os.makedirs(td, exist_ok=True)
            with open(os.path.join(td, "%s.ndjson" % prop), "w") as f:
                for v in new:
                    k = v.get("key") or C.viol_key(v)
                    inp = inputs.get(v["id"], {})
                    f.write(json.dumps(dict(key=k, v=v, text=inp.get("text"))) + "\n")
            with open(os.path.join(td, "%s.hit.json" % prop), "w") as f:
                # the listed elements that still fail (lib/triage.py --prune drops the others)
                json.dump(sorted({v.get("key") or C.viol_key(v) for vs in hits.values() for v in vs}), f)
            print("TRIAGE property=%s unlisted=%d known=%d" % (prop, len(new), sum(len(x) for x in hits.values())))
            new = []
        replays = []
        seen = set()
        for v in new:
            k = (v["id"], v.get("tab"), v.get("r"))
            if k in seen:
                continue
            seen.add(k)
            p = C.write_replay(prop, v, inputs, extra=v.get("extra"))
            replays.append(p)
            if len(replays) <= 200:
                print("VIOLATION property=%s replay=%s" % (prop, p))
        if len(replays) > 200:
            print("... and %d more violations (replay files written)" % (len(replays) - 200))
        coverage = dict(
            states=max(self.states, 0), transitions=max(self.transitions, 0),
            traces_validated_against_impl=self.traces,
            samples=self.samples[:6] or [dict(note="no non-trivial sample recorded")],
            evaluations=self.events, distinct_nontrivial=self.nontrivial,
            rule=self.rule or ("one evaluation = one recorded (input, configuration group, output) event of the real "
                               "formatter validated by TLC; non-trivial = output bytes differ from input bytes; "
                               "identical input texts are recorded once"),
            events_applicable=self.checked,
            design_checks=self.design,
            recordings=self.rec_summaries,
            known_finding_groups={g: len(vs) for g, vs in hits.items()},
            new_violations=len(replays),
            build_s=round(self.build_s, 1),
            exhaustive=False,
        )
        coverage.update(self.extra)
        C.write_evidence(prop, self.tier, self.seed, self.level, coverage, wall, len(replays), self.assumptions)
        print("SUMMARY property=%s tier=%s events=%d applicable=%d traces=%d states=%d new_violations=%d known=%d wall=%.0fs" % (
            prop, self.tier, self.events, self.checked, self.traces, self.states, len(replays),
            sum(len(v) for v in hits.values()), wall))
        return 1 if replays else 0


# ---------------------------------------------------------------------------------------
# universes shared by the relation family

FIX_W_QUICK = "0,40,80,120"
FIX_W_THORO = "0,1,20,40,60,80,100,120,10000"


LIST_INSTANCES = ["array", "args", "block", "paren", "dict"]


def l2_models(ctx, common, tabs, which):
    """L2: exhaustive design checks of the implementation-shaped layout models (every grammatical child sequence up
    to the bound x every width, token-level invariants), their behaviours replayed into the real code (U-beh), and
    the comparison of the model-predicted text with the real output (drift: reported, never a verdict)."""
    import beh
    q = ctx.quick
    allb = []
    total = dict(comparisons=0, drift=0, env_gap=0, samples=[])

    def run(name, fn, maxw):
        wd = os.path.join(ctx.work, "mc-" + name.replace("[", "-").replace("]", ""))
        t = time.time()
        r, behs = fn(wd)
        C.log("design check %s: ok=%s states=%d behaviours=%d %.1fs" % (name, r["ok"], r["states"], len(behs), time.time() - t))
        ctx.design.append(dict(spec=name, ok=r["ok"], states=r["states"], transitions=r["transitions"], behaviours=len(behs)))
        ctx.states += r["states"]
        ctx.transitions += r["transitions"]
        if not r["ok"]:
            with open(os.path.join(ctx.work, "mc-fail.log"), "w") as f:
                f.write(r["out"])
            raise C.ToolError("design check %s failed (model-level; not a property verdict)\n%s" % (name, r["out"][-2500:]))
        for pred, ro in ((("pred", False), ("pred_on", True)) if name == "ImportMC" else (("pred", False),)):
            d, _ = beh.drift(wd, behs, maxw, 2, pred=pred, ro=ro)
            for k in ("comparisons", "drift", "env_gap"):
                total[k] += d[k]
            total["samples"] += d["samples"][:2]
        allb.extend(behs)

    if "eq" in which:
        run("ListMC[eq]", lambda wd: beh.list_behaviours(wd, "eq", 5 if q else 6, maxw=24), 24)
    if "list" in which:
        insts = LIST_INSTANCES if not q else [LIST_INSTANCES[(ctx.seed + k) % len(LIST_INSTANCES)] for k in (0, 1)]
        for inst in insts:
            run("ListMC[%s]" % inst, lambda wd, inst=inst: beh.list_behaviours(wd, inst, 5 if q else 6, maxw=24), 24)
    if "chain" in which:
        run("ChainMC", lambda wd: beh.chain_behaviours(wd, 6 if q else 8, maxw=30), 30)
    if "flow" in which:
        run("FlowMC", lambda wd: beh.flow_behaviours(wd, 9 if q else 11, maxw=30), 30)
    if "markup" in which:
        run("MarkupMC", lambda wd: beh.markup_behaviours(wd, 4 if q else 5, maxw=20), 20)
    if "dotchain" in which:
        run("DotChainMC", lambda wd: beh.dotchain_behaviours(wd, 7, maxcmt=1 if q else 2), 44)
    if "comment" in which:
        # (C12 records every behaviour under four units: the two-line comments suffice there)
        run("CommentMC", lambda wd: beh.comment_behaviours(wd, 2 if q or ctx.prop == "C12" else 3), 16)
    if "mode" in which:
        run("ModeMC", lambda wd: beh.mode_behaviours(wd, 2 if q else 3, maxw=44 if q else 56), 44 if q else 56)
    if "item" in which:
        run("ItemMC", lambda wd: beh.item_behaviours(wd, 2, 4 if q else 5), 40)
    if "import" in which:
        run("ImportMC", lambda wd: beh.import_behaviours(wd, ids=("a", "ab", "b", "ma") if q else ("a", "ab", "b", "ba", "ma", "mb"),
                                                         maxtriv=1), 40)
    if "table" in which:
        kinds = ["cols2", "cell", "hdr", "gutter"] if q else ["cols2", "colsA", "cell", "hdr", "ftr", "hline", "hdrS", "gutter", "spread"]
        run("TableMC", lambda wd: beh.table_behaviours(wd, kinds, 3, maxw=20), 20)
    if "math" in which:
        run("MathArgsMC", lambda wd: beh.mathargs_behaviours(wd, 5 if q else 6, maxw=24), 24)
        run("MathDelimMC[block]", lambda wd: beh.mathdelim_behaviours(wd, 5 if q else 6, True, maxw=24), 24)
        run("MathDelimMC[inline]", lambda wd: beh.mathdelim_behaviours(wd, 5 if q else 6, False, maxw=24), 24)
    ctx.extra["model_drift"] = total
    if total["drift"]:
        C.log("MODEL DRIFT: %d of %d model-predicted texts differ from the real output (not a verdict)" % (
            total["drift"], total["comparisons"]))
    inp = os.path.join(ctx.work, "beh-all.ndjson")
    with open(inp, "w") as f:
        for b in allb:
            f.write(json.dumps({"id": b["id"], "text": b["text"]}) + "\n")
    ctx.record("beh", universe="file", input=inp, widths="all", tabs=tabs, **common)


def fmt_family(ctx, rels, parts, seed_tags="", trivia_tags="", passes=False, gap_quick="1/16",
               pair_fixed="1/400", pair_quick="1/10", tabs="2", fix_max_quick=30000, models=("list",), nl_fixed="1/40",
               nl_quick="1/6", single_fixed="1/1", opt=False):
    """The universes of the relation family.  Everything `thorough` explores is a fixed finite universe (all single
    placements, a seed-independent slice of the pair placements, a seed-independent slice of U-nl); `quick` explores
    a seed-selected part of the same universe."""
    q = ctx.quick
    common = dict(parts=parts, passes="true" if passes else "false")
    only = os.environ.get("VERIF_TRIAGE_GAP_TAGS") if os.environ.get("VERIF_TRIAGE") else None
    if only:
        # maintainer mode (bin/triage after a repair that touches few seeds): only U-gap over the given seed tags
        gap = dict(universe="gap", widths="all", single="1/1", single_fixed=single_fixed, pair_fixed=pair_fixed, pair="1/1",
                   tabs=tabs, seed_tags=only, **common)
        if trivia_tags:
            gap["trivia_tags"] = trivia_tags
        if opt:
            gap["opt"] = "true"
        ctx.record("gap", **gap)
        ctx.validate("TraceFmt", rels)
        return
    if models:
        l2_models(ctx, common, tabs, models)
    if os.environ.get("VERIF_TRIAGE") and os.environ.get("VERIF_TRIAGE_MODELS"):
        # maintainer mode (after a new L2 model was wired): only the behaviours of the models
        ctx.validate("TraceFmt", rels)
        return
    ctx.record("fix", universe="fix+chunk", widths=FIX_W_QUICK if q else FIX_W_THORO, tabs=tabs,
               max_bytes=fix_max_quick if q else (1 << 30), chunk_frac="1/8" if q else "1/1", **common)
    gap = dict(universe="gap", widths="all", single=gap_quick if q else "1/1", single_fixed=single_fixed, pair_fixed=pair_fixed,
               pair=pair_quick if q else "1/1", tabs=tabs, **common)
    if seed_tags:
        gap["seed_tags"] = seed_tags
    if trivia_tags:
        gap["trivia_tags"] = trivia_tags
    if opt:
        # the seeds and trivia values tagged `opt` (deep source indentation, the long-argument chain)
        gap["opt"] = "true"
    ctx.record("gap", **gap)
    nl = dict(universe="nl", widths="0,20,80", nl_fixed=nl_fixed, nl_sample=nl_quick if q else "1/1", tabs="2", **common)
    if seed_tags:
        nl["seed_tags"] = seed_tags
    ctx.record("nl", **nl)
    ctx.validate("TraceFmt", rels)


def c01(ctx):
    # the tree projections are the heaviest events: C01's universe is a fixed third of the single placements
    fmt_family(ctx, ["R01"], "tree", gap_quick="1/4", single_fixed="1/3", pair_fixed="1/1200", tabs="2,4", models=("list", "flow", "table", "mode", "item"))


def c03(ctx):
    fmt_family(ctx, ["R03"], "none", passes=True, gap_quick="1/6", pair_fixed="1/200", tabs="2,4",
               models=("list", "chain", "markup", "table", "dotchain", "comment"), opt=True)


def c04(ctx):
    fmt_family(ctx, ["R04"], "fmt", gap_quick="1/4", pair_fixed="1/100", tabs="2,4", models=("list", "chain", "flow", "dotchain", "mode"))


def c06(ctx):
    # the property quantifies over all configurations: import statements are also recorded with reordering on
    ctx.record("gap-ro", universe="gap", widths="all", single="1/2" if ctx.quick else "1/1", pair="0/1", tabs="2", ros="1",
               seed_tags="import", trivia_tags="cmt,off", parts="flat", passes="false")
    fmt_family(ctx, ["R06"], "flat", trivia_tags="cmt,off", gap_quick="1/6", pair_fixed="1/200",
               models=("list", "chain", "markup", "eq", "table", "dotchain", "comment", "import"))


def c08(ctx):
    fmt_family(ctx, ["R08"], "flat", models=("markup", "item"), seed_tags="markup,prose,list-item,comment,degenerate", gap_quick="1/4",
               pair_fixed="1/200")


def c09(ctx):
    fmt_family(ctx, ["R09"], "flat", models=("eq", "math"), seed_tags="math", gap_quick="1/3", pair_fixed="1/50")


def c10(ctx):
    fmt_family(ctx, ["R10"], "flat", models=(), seed_tags="lit,markup,call,comment", gap_quick="1/6", pair_fixed="1/400")


def c11(ctx):
    # L2: the renderer / strip transcription over ALL Docs of depth <= 2, then its conformance with the real `pretty`
    # renderer and strip_trailing_whitespace on Docs exported from the real formatter (drift, not a verdict)
    ctx.design_check("DocRenderMC", "SPECIFICATION Spec\nCONSTANTS Depth = 2\n MaxW = %d\nINVARIANTS InvHygiene InvStripOnly InvWidthStable "
                     "InvGroupIdem InvTextKept InvFitsWide\nCHECK_DEADLOCK FALSE\n" % (6 if ctx.quick else 10), workers=4)
    dd = os.path.join(ctx.work, "rec-docs")
    C.run([C.VT, "docs", "--universe", "fix+gap", "--single", "1/400" if ctx.quick else "1/60", "--pair", "0/1", "--max-bytes", "1500",
           "--widths", "0,40,120" if ctx.quick else "0,1,20,40,80,120", "--take", "150" if ctx.quick else "1200", "--seed", str(ctx.seed),
           "--outdir", dd, "--shards", "8", "--verif", C.VERIF, "--fixtures", os.path.join(C.REPO, "tests", "fixtures")], timeout=3000)
    sd = json.load(open(os.path.join(dd, "summary.json")))
    r = C.validate_traces("TraceDoc", 'CONSTANT Rels = {"RenderConforms", "StripConforms"}\n',
                          sorted(glob.glob(os.path.join(dd, "shard-*.ndjson"))), os.path.join(ctx.work, "val-docs"), specname="TSpec")
    ctx.states += r["states"]
    ctx.transitions += r["transitions"]
    ctx.traces += r["traces"]
    ctx.extra["renderer_conformance"] = dict(docs=r["checked"], doc_nodes=sd["universe_stats"]["doc_nodes"],
                                             unopened_closures=sd["universe_stats"]["unopened_closures"], drift=len(r["viol"]),
                                             samples=[v["id"] for v in r["viol"][:5]])
    if r["viol"]:
        C.log("MODEL DRIFT: DocRender.tla disagrees with the real renderer on %d exported Docs (not a verdict)" % len(r["viol"]))
    fmt_family(ctx, ["R11"], "lines", gap_quick="1/8", pair_fixed="1/400")


def c12(ctx):
    # four units multiply every recording: C12's universe is a fixed half of the single placements
    fmt_family(ctx, ["R12a", "R12b"], "lines,unit", gap_quick="1/6", single_fixed="1/2", pair_fixed="1/800", tabs="2,3,5,8",
               models=("list", "dotchain", "comment", "item"))


def c19(ctx):
    # the flag must reach the formatter through every front-end: import sources x options through the CLI vs the library
    binp, bs = C.build_cli()
    ctx.build_s += bs
    d3 = os.path.join(ctx.work, "rec-fe")
    C.run([C.VT, "frontends", "--universe", "gap", "--seed-tags", "import", "--single", "1/30" if ctx.quick else "1/4", "--pair", "0/1",
           "--take", "250" if ctx.quick else "3000", "--seed", str(ctx.seed), "--bin", binp, "--outdir", d3, "--shards", "6",
           "--work", os.path.join(ctx.work, "fe-scratch"), "--verif", C.VERIF,
           "--fixtures", os.path.join(C.REPO, "tests", "fixtures")], timeout=3000)
    s3 = json.load(open(os.path.join(d3, "summary.json")))
    ctx.recdirs.append(d3)
    ctx.rec_summaries.append(dict(name="frontends", **{k: s3[k] for k in ("universe", "elements", "events", "format_calls",
                                                                           "nontrivial_events", "universe_stats")}))
    ctx.nontrivial += s3["nontrivial_events"]
    fmt_family(ctx, ["R19", "R16"], "imp", models=("import",), seed_tags="import,markup", gap_quick="1/2", pair_fixed="1/20", pair_quick="1/10")


def c07(ctx):
    # L2: the directive-marking machine (Attr.tla) — exhaustive over all child-class sequences, then conformance of the
    # real AttrStore with it, node by node (drift, not a verdict)
    ctx.design_check("Attr", "SPECIFICATION Spec\nCONSTANT MaxLen = %d\nINVARIANTS DirectiveHitsNext NothingElse CommentedExact "
                     "PendingExact\nCHECK_DEADLOCK FALSE\n" % (7 if ctx.quick else 8), workers=4)
    da = os.path.join(ctx.work, "rec-attr")
    C.record(da, universe="gap+fix", single="1/8" if ctx.quick else "1/2", pair="0/1", trivia_tags="off,cmt", widths="0",
             parts="attr", passes="false", seed=ctx.seed, shards=6, max_bytes=20000)
    import glob as _g
    r = C.validate_traces("TraceAttr", 'CONSTANTS MaxLen = 1\n Rels = {"AttrConforms"}\n',
                          sorted(_g.glob(os.path.join(da, "shard-*.ndjson"))), os.path.join(ctx.work, "val-attr"), specname="TSpec")
    ctx.states += r["states"]
    ctx.transitions += r["transitions"]
    ctx.traces += r["traces"]
    ctx.extra["attr_conformance"] = dict(nodes_events=r["checked"], drift=len(r["viol"]),
                                         samples=[v["id"] for v in r["viol"][:5]])
    if r["viol"]:
        C.log("MODEL DRIFT: the real AttrStore disagrees with Attr.tla on %d documents (not a verdict)" % len(r["viol"]))
    fmt_family(ctx, ["R07"], "off", models=(), trivia_tags="off", gap_quick="1/1", pair_fixed="1/50", pair_quick="1/8",
               tabs="2,4")


# ---------------------------------------------------------------------------------------
# C14 / C15 / C16 — the command-line driver (Cli.tla)

CLI_CONSTS = ("CONSTANTS MaxPresent = %d\n MaxArgs = %d\n RootFixed = TRUE\n ReadFailCounted = TRUE\n DetWalk = %s\n LinkFollowed = FALSE\n")
CLI_CONJ = {
    "C14": ["CheckReadOnly", "CheckExit", "CheckSilent", "WriteOpensAllowed"],
    "C15": ["OnlyWhereAllowed", "WriteExactly", "Reported", "CleanExit", "SecondRunNoop", "NoInputRejected",
            "WriteOpensAllowed", "ReadsFollowArgs", "NoHiddenReads"],
    "C16": ["StdoutExact", "WriteExactly"],
}


def cli_scenarios(ctx, max_present, max_args):
    """TLC enumerates every (file tree, invocation) of Cli.tla within the bounds and prints one scenario
    per complete first run, with the model's predicted outcome."""
    cfg = ("SPECIFICATION Spec\nINVARIANT GenScen\nCHECK_DEADLOCK FALSE\n" + CLI_CONSTS % (max_present, max_args, "TRUE"))
    wd = os.path.join(ctx.work, "gen-cli")
    rc, out = C.tlc("Cli", cfg, wd, workers=8, xmx="6g", timeout=1500)
    if rc != 0 or "No error has been found" not in out:
        raise C.ToolError("scenario generation failed\n" + out[-2000:])
    scen = []
    import hashlib
    for s in C.parse_tlc_tuple_lines(out, "SCEN"):
        j = json.loads(C.unquote_tla_string(s))
        key = json.dumps([j["fs0"], j["inv"]], sort_keys=True)
        j["id"] = "cli:" + hashlib.sha256(key.encode()).hexdigest()[:14]
        scen.append(j)
    scen.sort(key=lambda j: j["id"])
    m = C.TLC_STATS.search(out)
    if m:
        ctx.states += int(m.group(2))
        ctx.transitions += int(m.group(1))
    return scen


def cli_family(ctx):
    prop = ctx.prop
    q = ctx.quick
    binp, bs = C.build_cli()
    ctx.build_s += bs
    # design check: the code-shaped driver satisfies the contract in every state, any directory order
    ctx.design_check("Cli", "SPECIFICATION Spec\nINVARIANTS TypeOK Contract\nCHECK_DEADLOCK FALSE\n" +
                     CLI_CONSTS % (2, 1 if q else 2, "FALSE"))
    scen = cli_scenarios(ctx, 2, 2)
    total = len(scen)
    import hashlib
    if q:
        want = 3000
        keyed = sorted(scen, key=lambda j: hashlib.sha256(("%d|%s" % (ctx.seed, j["id"])).encode()).hexdigest())
        # every scenario kind is represented: all format-all / stdin / noinput shapes, a slice of the file lists
        # stratified: every abstract shape of a run is represented — (kind, mode, root, class of each named argument /
        # classes of the files by position relative to the walk) — with up to `per` concrete scenarios each, chosen by the seed
        def shape(j):
            inv, fs0 = j["inv"], j["fs0"]
            if inv["kind"] == "list":
                cl = tuple(fs0[a]["cls"] if a in fs0 else ("D" if a == "w/x.typ" else "missing") for a in inv["args"])
                return ("list", inv["mode"], cl, len(set(inv["args"])) < len(inv["args"]))
            if inv["kind"] == "all":
                rd = {"none": "w", ".": "w", "s": "w/s", ".r": "w/.r", "x.typ": "w/x.typ"}[inv["root"]["arg"]]

                def pos(slot):
                    if not slot.startswith(rd + "/"):
                        return "outside"
                    comps = slot[len(rd) + 1:].split("/")
                    return "hidden" if any(c.startswith(".") for c in comps) else ("eligible" if slot.endswith(".typ") else "other-ext")
                present = tuple(sorted((pos(k), v["cls"]) for k, v in fs0.items() if v["cls"] != "A"))
                return ("all", inv["mode"], inv["root"]["arg"], present)
            return (inv["kind"], inv["mode"], inv.get("cls"))
        groups = {}
        for j in keyed:
            groups.setdefault(shape(j), []).append(j)
        per = 6
        scen = [j for g in groups.values() for j in g[:per]]
        if len(scen) > 2 * want:
            # too many shapes for a quick run: all shapes with a symbolic link, then a seed-selected part of the others
            rare = [j for j in scen if any(v["cls"] == "L" for v in j["fs0"].values())]
            rest = [j for j in scen if not any(v["cls"] == "L" for v in j["fs0"].values())]
            scen = rare + rest[:2 * want - len(rare)]
        ctx.extra["scenario_shapes"] = len(groups)
    sp = os.path.join(ctx.work, "scenarios.ndjson")
    with open(sp, "w") as f:
        for j in scen:
            f.write(json.dumps(j) + "\n")
    d = os.path.join(ctx.work, "rec-cli")
    t = time.time()
    C.run([C.VT, "cli", "--scen", sp, "--bin", binp, "--outdir", d, "--shards", "12",
           "--work", os.path.join(ctx.work, "scratch"), "--strace-every", "3" if q else "1"], timeout=3000)
    C.log("ran %d of %d scenarios against the binary in %.1fs" % (len(scen), total, time.time() - t))
    ctx.recdirs.append(d)
    ctx.extra["scenario_universe"] = total
    ctx.extra["scenarios_run"] = len(scen)
    consts = (CLI_CONSTS % (9, 3, "FALSE")) + "CONSTANT Conj = {%s}\n" % ", ".join('"%s"' % c for c in CLI_CONJ[prop])
    r = ctx.validate("TraceCli", None, consts=consts, specname="Spec2", dirs=[d])
    # drift (model prediction vs observation) is reported, never a verdict
    drift = 0
    nontriv = 0
    for sh in glob.glob(os.path.join(d, "shard-*.ndjson")):
        for line in open(sh):
            e = json.loads(line)
            if e["run"] != 1 or not e.get("pred"):
                continue
            if any(v["cls"] != v["req"] for v in e["fs0"].values()):
                continue
            if e["exit"] != 0 or any(v["eq"] != "same" for v in e["fs"].values()) or e["stdout"]:
                nontriv += 1
                if len(ctx.samples) < 5:
                    ctx.samples.append(dict(id=e["id"], argv=e["argv"], exit=e["exit"],
                                            files={k: v["cls"] for k, v in e["fs0"].items() if v["cls"] != "A"}))
            if e["pred"]["exit"] != e["exit"]:
                drift += 1
    ctx.nontrivial += nontriv
    ctx.extra["model_drift_exit"] = drift
    if prop == "C16":
        # differential part: every front-end against the library on real sources and the whole option grid
        d3 = os.path.join(ctx.work, "rec-fe")
        t = time.time()
        C.run([C.VT, "frontends", "--universe", "fix+gap", "--single", "1/400" if q else "1/40", "--max-bytes", "8000",
               "--take", "400" if q else "6000", "--seed", str(ctx.seed), "--bin", binp, "--outdir", d3, "--shards", "8",
               "--work", os.path.join(ctx.work, "fe-scratch"), "--verif", C.VERIF,
               "--fixtures", os.path.join(C.REPO, "tests", "fixtures")], timeout=3000)
        s3 = json.load(open(os.path.join(d3, "summary.json")))
        C.log("front-ends vs library: %d sources, %d comparisons in %.1fs" % (s3["elements"], s3["events"], time.time() - t))
        ctx.recdirs.append(d3)
        ctx.rec_summaries.append(dict(name="frontends", **{k: s3[k] for k in ("universe", "elements", "events", "format_calls",
                                                                               "nontrivial_events", "universe_stats")}))
        ctx.nontrivial += s3["nontrivial_events"]
        ctx.validate("TraceFmt", ["R16"], dirs=[d3])
    ctx.rule = ("one evaluation = one run of the real binary (a Cli.tla scenario: file tree x command line, run twice) "
                "validated by TLC against the contract conjuncts; non-trivial = exit status non-zero, a file changed, "
                "or something was printed")


# ---------------------------------------------------------------------------------------
# C05 — totality (Pipeline.tla)

def c05(ctx):
    q = ctx.quick
    ctx.design_check("Pipeline", "SPECIFICATION Spec\nINVARIANTS TypeOK RefusalExact WrapperContract\nPROPERTY Terminates\nCHECK_DEADLOCK FALSE\n",
                     workers=2)
    d = os.path.join(ctx.work, "rec-calls")
    t = time.time()
    big = 4611686018427387903  # usize::MAX / 2
    cfgs = "80:2:2:0,0:0:2:0" if q else "80:2:2:0,0:0:2:0,1:1:2:1,%d:64:2:0" % big
    C.run([C.VT, "calls", "--maxlen", "3" if q else "4", "--extra", "1/30" if q else "1/12", "--seed", str(ctx.seed),
           "--mut-stride", "9" if q else "2", "--nest-max", "64" if q else "300", "--cfgs", cfgs,
           "--outdir", d, "--shards", "12", "--verif", C.VERIF, "--fixtures", os.path.join(C.REPO, "tests", "fixtures")],
          timeout=3000)
    s = json.load(open(os.path.join(d, "summary.json")))
    C.log("recorded calls: %d inputs, %d events (%s) in %.1fs" % (s["elements"], s["events"], s["universe_stats"], time.time() - t))
    ctx.recdirs.append(d)
    ctx.rec_summaries.append(dict(name="calls", **{k: s[k] for k in ("universe", "elements", "events", "format_calls",
                                                                       "nontrivial_events", "universe_stats")}))
    ctx.nontrivial += s["nontrivial_events"]
    ctx.samples += s["samples"][:4]
    ctx.validate("TracePipeline", None, specname="TSpec", dirs=[d],
                 consts='CONSTANT Rels = {"Returns", "PhasesFollowSpec", "RefusalExact", "WrapperContract", "NonEmpty"}\n')
    # the structured universes of the other properties too: every call returns, and refuses iff erroneous (R05)
    dg = ctx.record("gap5", universe="gap+fix+chunk", widths="0,1,40,120", single_fixed="1/4", single="1/6" if q else "1/1",
                    pair_fixed="1/800", pair="1/10" if q else "1/1", tabs="2,0" if q else "2,0,1,64", parts="fmt", passes="false",
                    max_bytes=1 << 30)
    dn = ctx.record("nl5", universe="nl", widths="0,80", nl_fixed="1/40", nl_sample="1/6" if q else "1/1", tabs="2", parts="fmt",
                    passes="false")
    ctx.validate("TraceFmt", ["R05"], dirs=[dg, dn])
    ctx.rule = ("one evaluation = one call of Typstyle::format_content + format_with_width on a UTF-8 string under one "
                "configuration, with the phase hook logging the pipeline phases; non-trivial = the formatter accepted the "
                "input and returned text (the others were refused as erroneous)")
    ctx.assumptions.append("calls run in worker processes with catch_unwind; a dead worker is bisected to the input (abort), "
                           "a silent one for 10 s is a timeout")


# ---------------------------------------------------------------------------------------
# C13 — range formatting (R13 relations)

def c13(ctx):
    q = ctx.quick
    # L2: clamp / trim / innermost covering formattable node / refusal, over all trees x texts x ranges
    ctx.design_check("RangeMC", "SPECIFICATION Spec\nCONSTANTS TextLen = %d\n MaxNodes = %d\n TrimFirst = FALSE\nINVARIANTS InvNoPanic InvCover "
                     "InvInnermost InvRefuse InvTrim\nCHECK_DEADLOCK FALSE\n" % ((3, 3) if q else (4, 4)), workers=6)
    d = os.path.join(ctx.work, "rec-ranges")
    t = time.time()
    C.run([C.VT, "ranges", "--universe", "gap+chunk", "--single-fixed", "1/40", "--single", "1/4" if q else "1/1", "--chunk-bytes", "80",
           "--chunk-frac", "1/6" if q else "1/1", "--seed", str(ctx.seed), "--max-doc", "70" if q else "80",
           "--cfgs", "40:2:2:0" if q else "40:2:2:0,0:4:2:0", "--outdir", d, "--shards", "12",
           "--verif", C.VERIF, "--fixtures", os.path.join(C.REPO, "tests", "fixtures")], timeout=3000)
    s = json.load(open(os.path.join(d, "summary.json")))
    C.log("recorded ranges: %d documents, %d calls, %d distinct results in %.1fs" % (
        s["elements"], s["format_calls"], s["events"], time.time() - t))
    # erroneous documents: refusal / no panic
    d2 = os.path.join(ctx.work, "rec-ranges-err")
    mut = os.path.join(ctx.work, "damaged.ndjson")
    import hashlib

    def hx(x):
        return int(hashlib.sha256(x.encode()).hexdigest()[:12], 16)

    # damaged documents: a fixed (seed-independent) tenth of the recorded documents, damaged at a position derived from
    # the digest of the id; quick takes a seed-selected part of them
    with open(mut, "w") as f:
        for line in open(os.path.join(d, "inputs.ndjson")):
            r = json.loads(line)
            t0 = r["text"]
            if len(t0) < 4 or hx("fixed|" + r["id"]) % 10 != 0:
                continue
            if q and hx("%d|%s" % (ctx.seed, r["id"])) % 2 != 0:
                continue
            k = hx("pos|" + r["id"]) % (len(t0) - 1)
            while not (t0[:k] + t0[k:]).isprintable() and False:
                k -= 1
            for j, dmg in enumerate([t0[:k] + t0[k + 1:], t0[:k] + "(" + t0[k:], t0[:k] + "\"" + t0[k:], t0[:k]]):
                f.write(json.dumps({"id": "dmg:%s:%d" % (r["id"], j), "text": dmg}) + "\n")
    C.run([C.VT, "ranges", "--universe", "file", "--input", mut, "--max-doc", "90", "--cfgs", "40:2:2:0", "--trees", "false",
           "--outdir", d2, "--shards", "4"], timeout=3000)
    d4 = os.path.join(ctx.work, "rec-ranges-nl")
    C.run([C.VT, "ranges", "--universe", "nl", "--nl-fixed", "1/400", "--nl-chunk", "0/1", "--nl-sample", "1/4" if q else "1/1",
           "--seed", str(ctx.seed), "--max-doc", "60", "--cfgs", "40:2:2:0", "--outdir", d4, "--shards", "6",
           "--verif", C.VERIF, "--fixtures", os.path.join(C.REPO, "tests", "fixtures")], timeout=3000)
    for dd in (d, d2, d4):
        ss = json.load(open(os.path.join(dd, "summary.json")))
        ctx.recdirs.append(dd)
        ctx.rec_summaries.append(dict(name=os.path.basename(dd), **{k: ss[k] for k in (
            "universe", "elements", "events", "format_calls", "nontrivial_events", "universe_stats")}))
        ctx.nontrivial += ss["nontrivial_events"]
        ctx.samples += ss["samples"][:3]
    ctx.validate("TraceFmt", ["R13NoPanic", "R13Cover", "R13Refuse", "R13Splice"])
    ctx.extra["range_calls"] = sum(r["format_calls"] for r in ctx.rec_summaries)
    ctx.rule = ("one evaluation = one distinct result (node range, text) of format_source_range on a document, standing for "
                "all requested (start, end) pairs on character boundaries that produced it (end up to 2*len+1); "
                "non-trivial = the splice changes the document")


# ---------------------------------------------------------------------------------------
# C17 — determinism over histories (Session.tla)

def c17(ctx):
    q = ctx.quick
    r = ctx.design_check("Session", "SPECIFICATION Spec\nCONSTANTS Threads = {1, 2}\n Docs = {1, 2}\n Cfgs = {1}\n MaxCalls = %d\n"
                         "INVARIANTS Deterministic GenSched\nCHECK_DEADLOCK FALSE\n" % (2 if q else 3), workers=4)
    scheds = sorted(set(C.parse_tlc_tuple_lines(r["out"], "SCHED")))
    import hashlib
    scheds.sort(key=lambda x: hashlib.sha256(("%d|%s" % (ctx.seed, x)).encode()).hexdigest())
    scheds = scheds[:400 if q else 6000]
    sf = os.path.join(ctx.work, "schedules.txt")
    with open(sf, "w") as f:
        for sline in scheds:
            f.write("[" + sline.strip("<>").replace(" ", "") + "]\n")
    d = os.path.join(ctx.work, "rec-hist")
    common = ["--universe", "gap+fix", "--single", "1/300", "--max-bytes", "6000", "--docs", "40" if q else "160",
              "--seed", str(ctx.seed), "--cfgs", "80:2:2:0,20:4:2:0,0:2:2:1,120:3:2:0", "--verif", C.VERIF,
              "--fixtures", os.path.join(C.REPO, "tests", "fixtures")]
    t = time.time()
    C.run([C.VT, "hist"] + common + ["--hthreads", "16", "--rounds", "300" if q else "3000", "--sched", sf, "--outdir", d], timeout=3000)
    # the same calls in a fresh process (different RandomState)
    d2 = os.path.join(ctx.work, "rec-hist-p2")
    C.run([C.VT, "hist"] + common + ["--hthreads", "2", "--rounds", "20", "--outdir", d2], timeout=3000)
    with open(os.path.join(d, "shard-00.ndjson"), "a") as f:
        for line in open(os.path.join(d2, "shard-00.ndjson")):
            e = json.loads(line)
            e["mode"] = "process2:" + e["mode"]
            e["thread"] += 100
            f.write(json.dumps(e) + "\n")
    s = json.load(open(os.path.join(d, "summary.json")))
    n = sum(1 for _ in open(os.path.join(d, "shard-00.ndjson")))
    C.log("recorded history: %d events incl. %d replayed schedules in %.1fs" % (n, len(scheds), time.time() - t))
    ctx.recdirs.append(d)
    ctx.rec_summaries.append(dict(name="hist", universe="hist", elements=s["elements"], events=n, format_calls=n,
                                  nontrivial_events=n, universe_stats={"schedules_replayed": len(scheds)}))
    ctx.nontrivial += n
    ctx.samples += s["samples"][:2] + [dict(schedule=scheds[0] if scheds else None)]
    ctx.validate("TraceSession", None, specname="TSpec", consts='CONSTANT Rels = {"Deterministic", "NoPanic"}\n', xmx="4g")
    ctx.extra["schedules_replayed"] = len(scheds)
    ctx.rule = ("one evaluation = one format call in a recorded history (sequential A;B;A, 16 free-running threads, "
                "TLC-generated phase interleavings of concurrent calls replayed through the phase hook, a second process); "
                "all are non-trivial (every call formats a document)")


# ---------------------------------------------------------------------------------------
# C18 — linear work (Cost.tla)

def c18(ctx):
    q = ctx.quick
    cost = ("SPECIFICATION Spec\nCONSTANTS Depth = %d\n Branch = 2\n B = 4\n AntiPattern = %s\n"
            "INVARIANTS BoundedVisits Complete\nCHECK_DEADLOCK FALSE\n")
    ctx.design_check("Cost", cost % (3, "FALSE"), workers=4)
    # vacuity guard: the anti-pattern must violate the invariant in the model
    r = C.model_check("Cost", cost % (3, "TRUE"), os.path.join(ctx.work, "mc-Cost-anti"), workers=4)
    if r["ok"] or "BoundedVisits is violated" not in r["out"]:
        raise C.ToolError("vacuity guard failed: Cost.tla with the anti-pattern does not violate BoundedVisits")
    ctx.extra["antipattern_violates_in_model"] = True
    d = os.path.join(ctx.work, "rec-visits")
    t = time.time()
    C.run([C.VT, "visits", "--max-depth", "48" if q else "200", "--widths", "0,40,120" if q else "0,1,20,40,80,120",
           "--outdir", d, "--shards", "4", "--fixtures", os.path.join(C.REPO, "tests", "fixtures")], timeout=3000)
    s = json.load(open(os.path.join(d, "summary.json")))
    C.log("recorded visit logs: %d documents, %d events in %.1fs" % (s["elements"], s["events"], time.time() - t))
    ctx.recdirs.append(d)
    ctx.rec_summaries.append(dict(name="visits", **{k: s[k] for k in ("universe", "elements", "events", "format_calls",
                                                                        "nontrivial_events", "universe_stats")}))
    ctx.nontrivial += s["nontrivial_events"]
    ctx.samples += s["samples"][:4]
    ctx.validate("TraceCost", None, specname="TSpec",
                 consts='CONSTANTS Depth = 1\n Branch = 1\n B = 4\n AntiPattern = FALSE\n Rels = {"BoundedVisits", "Completes"}\n')
    # reduce the log for the evidence file: worst ratio of conversions to nodes, slowest call
    worst = (0.0, None)
    slow = (0, None)
    for sh in glob.glob(os.path.join(d, "shard-*.ndjson")):
        for line in open(sh):
            e = json.loads(line)
            r0 = e["visits"] / max(1, e["nodes"])
            if r0 > worst[0]:
                worst = (r0, e["id"])
            if e["us"] > slow[0]:
                slow = (e["us"], e["id"])
    ctx.extra["max_conversions_per_node_ratio"] = round(worst[0], 3)
    ctx.extra["max_ratio_at"] = worst[1]
    ctx.extra["slowest_call_us"] = slow[0]
    ctx.extra["slowest_call"] = slow[1]
    ctx.rule = ("one evaluation = one format call with the visit hook on (every nesting family to the stated depth, ordered "
                "pairs of families, all fixtures, several widths); the log is reduced to conversions per node; all non-trivial")


# ---------------------------------------------------------------------------------------
# C02 — compiles to the same result (the real compiler is the logged oracle)

def c02(ctx):
    q = ctx.quick
    ctx.level = "exploration"
    h2 = os.path.join(C.VERIF, "harness-c02")
    t = time.time()
    C.run(["cargo", "build", "--release", "--offline", "--quiet"], cwd=h2, timeout=3000, env={"CARGO_NET_OFFLINE": "true"})
    ctx.build_s += time.time() - t
    vt2 = os.path.join(h2, "target", "release", "vt2")
    # U-prog: U-gap elements and fixtures closed into evaluable programs by a fixed prelude
    d0 = os.path.join(ctx.work, "rec-src")
    C.record(d0, universe="gap+fix", single_fixed="1/40", single="1/5" if q else "1/1", pair="0/1", max_bytes=5000, widths="0",
             parts="none", passes="false", seed=ctx.seed, shards=1)
    prelude = open(os.path.join(C.VERIF, "universe", "prelude.typ")).read()
    inp = os.path.join(ctx.work, "programs.ndjson")
    n = 0
    with open(inp, "w") as f:
        for line in open(os.path.join(d0, "inputs.ndjson")):
            r = json.loads(line)
            text = r["text"] if r["id"].startswith("fix:") else prelude + r["text"]
            f.write(json.dumps({"id": "prog:" + r["id"], "text": text}) + "\n")
            n += 1
    d = os.path.join(ctx.work, "rec-obs")
    t = time.time()
    C.run([vt2, "--input", inp, "--outdir", d, "--shards", "12", "--widths", "0,40,120" if q else "0,20,40,80,120",
           "--tabs", "2"], timeout=3400)
    s = json.load(open(os.path.join(d, "summary.json")))
    C.log("compiled %d programs: %d observations (%s) in %.1fs" % (n, s["events"], s["universe_stats"], time.time() - t))
    ctx.recdirs.append(d)
    ctx.rec_summaries.append(dict(name="obs", **{k: s[k] for k in ("universe", "elements", "events", "format_calls",
                                                                     "nontrivial_events", "universe_stats")}))
    ctx.nontrivial += s["nontrivial_events"]
    ctx.samples += s["samples"][:4]
    ctx.validate("TraceFmt", ["R02"], dirs=[d])
    ctx.rule = ("one evaluation = one (program, distinct formatted output) pair compiled and rendered with the real Typst "
                "compiler (pages, pixel digest of every page at 2 px/pt, title/author/keywords, or the diagnostics); "
                "non-trivial = the formatted program differs from the original")
    ctx.assumptions.append("the Typst compiler, layout engine and rasteriser are deterministic oracles outside the model")


TABLE = {
    "C02": c02,
    "C14": cli_family, "C15": cli_family, "C16": cli_family,
    "C01": c01, "C07": c07, "C19": c19, "C05": c05, "C13": c13, "C17": c17, "C18": c18, "C03": c03, "C04": c04, "C06": c06, "C08": c08, "C09": c09, "C10": c10, "C11": c11, "C12": c12,
}
