#!/usr/bin/env python3
"""Summarises /verif/seeded/*/detect-*.json into /verif/seeded/RESULTS.md."""
import glob, json, os
V = os.path.dirname(os.path.dirname(os.path.abspath(__file__)))
rows = []
for d in sorted(glob.glob(os.path.join(V, "seeded", "*", ""))):
    sid = os.path.basename(d.rstrip("/"))
    meta = {}
    try:
        meta = json.load(open(os.path.join(d, "meta.json")))
    except Exception:
        pass
    conf = json.load(open(os.path.join(d, "confirm.json"))) if os.path.exists(os.path.join(d, "confirm.json")) else {}
    det = {}
    for f in sorted(glob.glob(os.path.join(d, "detect-*.json"))):
        tier = os.path.basename(f)[7:-5]
        for r in json.load(open(f)):
            det.setdefault(r["property"], {})[tier] = (r["rc"], r["violation_lines"])
    rows.append((sid, meta, conf, det))
with open(os.path.join(V, "seeded", "RESULTS.md"), "w") as f:
    f.write("# Seeded changes and the checks that catch them\n\n")
    f.write("Each row: a change written by a fresh sub-agent from the text of one property alone, confirmed in a scratch worktree "
            "(suite = baseline 1923/14, demonstration fails with / passes without), then applied to /repo, checked with "
            "`bin/check`, and undone.  `caught` = exit 1 with at least one VIOLATION line that is not a listed known finding.\n\n")
    f.write("| id | breaks | change (summary) | confirmed | checks run → result |\n|---|---|---|---|---|\n")
    caught = 0
    for sid, meta, conf, det in rows:
        res = []
        any_c = False
        for prop, tiers in sorted(det.items()):
            for tier, (rc, n) in sorted(tiers.items()):
                c = rc == 1 and n > 0
                any_c |= c
                res.append("%s %s: %s" % (prop, tier, ("**caught** (%d)" % n) if c else ("missed" if rc == 0 else "rc=%d" % rc)))
        caught += any_c
        summ = (meta.get("summary") or "")[:260].replace("|", "\\|").replace("\n", " ")
        f.write("| %s | %s | %s | %s | %s |\n" % (sid, meta.get("property", sid[:3]), summ, "yes" if conf.get("confirmed") else "NO",
                                               "; ".join(res) or "not run yet"))
    f.write("\n%d of %d seeded changes caught by at least one check.\n" % (caught, len(rows)))
print("written", len(rows))
