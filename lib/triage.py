#!/usr/bin/env python3
"""Maintainer tool: classifies the violations dumped by `bin/triage` (work/triage/<prop>.ndjson — every violation
of the thorough tier on the unchanged tree that is not yet listed) into root-cause groups and rewrites
/verif/known_findings.json.  The grouping rules only LABEL; what is listed is the exact element
(universe element id | sha of the input | configuration).  Checks never call this and never write that file.

usage: lib/triage.py [--merge] <prop>...
"""
import glob
import json
import os
import subprocess
import sys

V = os.path.dirname(os.path.dirname(os.path.abspath(__file__)))

GROUPS = [
    dict(group="G01-strip-edits-content",
         title="strip_trailing_whitespace edits content",
         call_site="crates/typstyle-core/src/utils.rs strip_trailing_whitespace (str::trim_end on every output line)",
         root_cause="The final pass right-trims every line of the rendered text with Unicode trim_end. Lines that lie inside "
                    "a multi-line string or raw literal lose their trailing blanks, and a no-break space / ideographic "
                    "space that ends a line of prose (content in Typst) is deleted; a line holding only such a blank "
                    "becomes empty, which can turn a line break into a paragraph break. Pinned by the string-multiline and "
                    "raw snapshots; C11 demands the stripping, so no repair satisfies both."),
    dict(group="G02-suppressed-context-multiline",
         title="break-suppressed contexts do not converge when a child forces a line break",
         call_site="crates/typstyle-core/src/pretty/mod.rs get_fold_style_untyped (break_suppressed => Always unless the node "
                   "is multi-line) and the stylists that ignore break_suppressed",
         root_cause="Inside a line of prose or an equation the fold style of a node is 'always fold' unless the SOURCE node is "
                    "multi-line. When something inside must break anyway (a block with two statements, a line comment, a "
                    "table, a disabled multi-line node, a chain that ignores the suppression at width 0) the first run makes "
                    "the node multi-line, and the second run then lays it out with the 'fit' style. A design property of the "
                    "suppression mechanism; needs a redesign, not a patch."),
    dict(group="G03-off-region-keeps-source-indentation",
         title="a multi-line node under '@typstyle off' keeps its source indentation at a new nesting depth",
         call_site="crates/typstyle-core/src/pretty/mod.rs convert_verbatim_untyped (text atom with embedded line feeds)",
         root_cause="The disabled node is emitted as one text atom; its continuation lines keep their source indentation while "
                    "the first line moves to the printer's indentation. For list / enum / term items and their continuation "
                    "lines Typst derives nesting from these columns, so items are re-nested or paragraphs leave their item; "
                    "the layout is also not a fixed point and not unit-proportional."),
    dict(group="G04-list-item-continuation-unit",
         title="continuation of a markup list item is indented by the unit, not relative to the marker column",
         call_site="crates/typstyle-core/src/pretty/markup.rs convert_list_item_like (.nest(tab_spaces))",
         root_cause="Continuation lines of a list / enum / term item are indented by one unit from the line's indentation. When "
                    "an item body starts with another item on the same line ('- - a'), or a comment precedes the marker, or the "
                    "unit is larger than the marker width, a line that continued the OUTER item lands in the column range of the "
                    "inner item (or the other way round) and Typst nests it differently."),
    dict(group="G05-backslash-glue",
         title="a trailing line break '\\' glues with the following punctuation",
         call_site="crates/typstyle-core/src/pretty/func_call.rs convert_args_in_math / markup.rs (blank after a Linebreak dropped)",
         root_cause="When the blank that separates a forced line break '\\' from a following ',', ')', ']' or ':' is removed, the "
                    "two characters form an escape sequence ('\\,' '\\)' '\\:'): the separator or delimiter is lost."),
    dict(group="G06-closure-body-braces-with-comment",
         title="optional braces around a closure body put a commented chain into code mode",
         call_site="crates/typstyle-core/src/pretty/parened_expr.rs convert_expr_with_optional_paren(use_braces = true)",
         root_cause="A closure body that is not a chainable binary is wrapped in '{ }' when it breaks; inside braces a line feed "
                    "ends the statement, so a field access / assignment whose comment forces a break ('it.// c⏎body') no "
                    "longer parses or parses as two statements."),
    dict(group="G07-math-delimited-trivia",
         title="blanks and line feeds next to comments inside math delimiters",
         call_site="crates/typstyle-core/src/pretty/math.rs convert_math_delimited (flow stylist between comments; line() for a "
                   "line feed in the body)",
         root_cause="Inside ( ) [ ] { } in math the flow stylist puts a blank between two adjacent comments and renders a line "
                    "feed in the body with a soft line, so between two atoms whitespace appears where there was none, or a line "
                    "feed becomes a blank when the group fits."),
    dict(group="G08-flow-line-comment-indent",
         title="a line comment on its own line after a flow-item hard break is indented by unit + 1",
         call_site="crates/typstyle-core/src/pretty/layout/flow.rs FlowStylist::push_comment (at_line_start is reset by every "
                   "push_doc, also by the hard line a producer emits) — term items (markup.rs), math delimiters and math "
                   "arguments (math.rs, func_call.rs)",
         root_cause="After a hard line break that a flow-item PRODUCER emitted (not the driver's own deferred break) the stylist "
                    "does not know it is at a line start, forces its separating blank before a line comment, and the comment "
                    "line is indented by unit + 1: '/ term:⏎// c', '$ (⏎ a + b⏎// c⏎) $', 'mat(⏎ 1, 2⏎// c⏎)'. The term-item "
                    "case is pinned by the term-indent snapshots."),
    dict(group="G09-range-formatting-context",
         title="range formatting infers mode / indentation from too little context",
         call_site="crates/typstyle-core/src/partial.rs format_source_range / get_node_cover_range_impl",
         root_cause="The replacement text is produced from the selected node alone: the mode after a '#' inside math is not "
                    "tracked, a marker followed by blank lines or comments shifts the column the body must keep, and "
                    "multi-line nodes nested in list items are re-indented from the line start. The spliced document then "
                    "parses to a different tree."),
    dict(group="G10-comment-column-shifts-nesting",
         title="re-aligning a block comment moves a list marker that follows it on the same line",
         call_site="crates/typstyle-core/src/pretty/comment.rs align_multiline / markup.rs",
         root_cause="A list marker written after a (multi-line) block comment on the same line gets a new column when the comment "
                    "is re-aligned; the nesting Typst derives from that column changes."),
    dict(group="G11-content-edge-whitespace-observable",
         title="edge whitespace of a content block changes and is observable through repr",
         call_site="crates/typstyle-core/src/pretty/markup.rs convert_markup_impl (boundaries through comments)",
         root_cause="Whitespace at the edges of a content block is layout for C08, but '[ a /* c */]' printed as "
                    "'[⏎ a /* c */⏎]' (or a blank added after '[' before a comment) changes the content value (a trailing / "
                    "leading space element), which is visible when the value is shown with repr, e.g. as a dictionary value."),
    dict(group="G12-math-hash-attach-blank",
         title="the blank between an embedded code identifier and a following sub/superscript marker is dropped in math",
         call_site="crates/typstyle-core/src/pretty/math.rs convert_math_attach (blanks around `_` / `^` are dropped)",
         root_cause="'$a^#x _2$' is printed as '$a^#x_2$': the blank ended the embedded identifier `x`; without it the "
                    "identifier is `x_2` (underscores are identifier characters in code). Found through the probes of a "
                    "seeded-change author (round 2), reproduced by seeds m-hash-sub / m-hash-sub2."),
    dict(group="G13-strong-with-list-marker",
         title="a strong / emph body that starts with a list marker is broken onto lines of its own",
         call_site="crates/typstyle-core/src/pretty/markup.rs convert_markup_impl (Strong scope) / convert_list_item_like",
         root_cause="'* - a⏎b *' (a strong element whose body holds a list item) is printed as '*⏎- a⏎b⏎*': the closing and "
                    "opening stars land at a line start, where Typst reads a different structure. An absurd corner; reproduced "
                    "by seed mk-strong-list."),
    dict(group="G90-other-nonconvergence",
         title="other inputs that need two runs to reach a fixed point",
         call_site="several (see examples)",
         root_cause="Non-convergence outside the groups above: e.g. a blank kept in front of an attached comment that the next run "
                    "re-attaches differently, a heading / term body whose edge blank is re-classified, flavor detection that "
                    "reads the first blank of the OUTPUT. Each listed element is an input whose second run differs from the first."),
    dict(group="G99-other",
         title="remaining listed elements",
         call_site="see examples",
         root_cause="Elements that fail the relation on the unchanged tree and fit none of the groups above; each was produced by "
                    "the thorough tier and is listed exactly."),
]

FIXED = ['fixed: property=C01 aeb17e8 F01 `a not in b == c` printed as `a in b == c` (operator of the outermost Binary used for every operand of a mixed comparison chain)', 'fixed: property=C03 a57c073 F06 `#f(a,\\n\\n b)` printed as `#f(a,  b)` and only converged on the next run (line() for a kept blank line under a flat group)', 'fixed: property=C04 ff2876a F07 `(/* c */x) => x` lost the parentheses of its single parameter; erroneous output with a line comment or at width 0', 'fixed: property=C04 ee58016 F09a `$e // c\\n$` printed as `$e // c$` (attached line comment before a tight closing delimiter)', 'fixed: property=C03 4cc58ca F10 `f(\\n x\\n /* c */\\n)` printed as `f(x/* c */ )`, then `f(x /* c */)`', 'fixed: property=C04 39d9bd0 F09b `mat(1, 2 // c\\n)` printed as `mat(1, 2 // c)`', 'fixed: property=C01 dab755f F11 `mat(mat(1, 2; 3, 4), 1; 2, 3)` lost the row separators of the nested call', 'fixed: property=C04 2f2f895 F13 `(import "a.typ":// c\\n (b, a))` printed as `import "a.typ": // c (`', 'fixed: property=C04 1fbd97c F12 `f(import "a.typ": (b, a), k: 1)` lost the parentheses of the import items', 'fixed: property=C03 1fa8855 F14 import items broken inside a break-suppressed context, re-laid out on the next run', 'fixed: property=C01 6043d11 F08 `mat(1, // c\\n 2; 3, 4)` printed as `2,; 3, 4` (extra empty cell)', 'fixed: property=C15 c2869ff F03 `format-all .` (any root whose own name starts with a dot) formatted nothing and exited 0', 'fixed: property=C15 c042115 F05 `format-all` skipped an unreadable (invalid UTF-8) .typ file silently and exited 0', 'fixed: property=C19 ce14a72 F15 `import "a.typ": /* about b */ b, a` reordered although the import contains a comment', 'fixed: property=C19 091c0e0 F16 import items sorted by their source text including blanks (`m .b` before `m.a`), differently on the next run', 'fixed: property=C06 8a75f5d F17 `#let v = a./* c */b` printed as `#let v = a.b` (comment dropped in a field access outside the chain layout)', 'fixed: property=C07 25e71c6 F21 a directive inside a disabled non-expression node (`a: /* @typstyle off */ (1,2,  3)` after an outer directive) was ignored', 'fixed: property=C08 d73029c F02 CR / VT / FF / NEL / LS / PS line endings: `a\\r\\rb` printed as `ab`, `// c\\r b` as `// c b`', 'fixed: property=C05 e22d97a F18 `$vec( )$` panicked in convert_args_in_math', 'fixed: property=C13 d4d0c87 F04 format_source_range panicked for a range ending past the end of the text', 'fixed: property=C13 f678879 F19 range formatting un-nested the sub-items of a list item (indent inferred from the blanks before the range)', 'fixed: property=C03 fd43440 F20 blank lines before and after a comma added up (`a\\n\\n\\n,\\n\\n b` kept 3 blank lines, next run 2)', 'fixed: property=C13 6395bf0 F22 range formatting inferred indentation 0 after CR / FF / NEL / LS / PS line endings (sub-items un-nested after the splice)', 'fixed: property=C03 6fce177 F23 `table.\\nheader([a])` / `table. cell(..)` not recognised as header / cell (func_name() was the callee source text); the table was laid out differently on the next run', 'fixed: property=C05 d5056ba F24 `#table(columns: 99999999999, [a])` aborted (1.6 TB allocation) and `columns: 9223372036854775807` panicked (capacity overflow): rows pre-allocated with the value of the literal', 'fixed: property=C01 4026319 F25 `#set text(red)[a]` printed as `#set text(red)`: the content blocks after the parentheses of a set rule were dropped', 'fixed: property=C01 2717db1 F26 `#(2)e3` printed as `#2e3`, `#(none)x` as `#nonex`, `$#(1.5)a$` as `$#1.5a$`: parentheses removed around a literal that text follows directly', 'fixed: property=C03 4d45b6e F27 `#(a1.bb2./* c1 *//* c2 */cccc3, z9)` broken at the dots printed `./* c1 *//* c2 */cccc3`, next run `./* c1 */ /* c2 */cccc3` (attached comments after a chain operator not spaced); found by TLC on DotChainMC (InvConvergence) before running the code', 'fixed: property=C13 5ab9bbb F28 range formatting of `(1)` in `x#(1)y` returned `1`: the splice `x#1y` changed the document (the embedded-literal rule of F26 was not applied to the node that range formatting converts)', 'fixed: property=C03 9d848c8 F29 `/* c1\\n<tab>\\n     c2 */`: a comment line holding only a tab counted for the common indentation, was stripped from the output, and the next run shifted the comment']

LIST_SEEDS = ("mk-list", "mk-enum", "mk-term", "mk-mixed-list", "mk-cnt-list", "mk-list-code", "mk-list-cont", "mk-list-par",
              "mk-list-after")
STRIP_SEEDS = ("deg-nbsp", "lit-str-ml", "mk-raw", "mk-raw-blk", "mk-raw-blk2", "mk-raw-inl-ml", "deg-tab", "deg-raw-end")
SUPPRESSED_CTX = ("par", "math", "inl", "mat", "delim", "sub")


def parts(eid):
    p = eid.split(":")
    while p and p[0] in ("nl",):
        p = p[2:]
    if p and p[0] in ("gap", "gap2"):
        seed, ctx = p[1], p[2]
        triv = [x for x in p[3:] if not (x.startswith("g") and x[1:].isdigit())]
        return seed, ctx, triv
    return p[0] if p else "", "", []


def classify(prop, v, text):
    seed, ctx, triv = parts(v["id"])
    t = text or ""
    off = any(x.startswith("off") for x in triv) or seed.startswith("off-") or "@typstyle off" in t
    if v["id"].startswith("beh:item:"):
        return "G04-list-item-continuation-unit"
    if seed in ("m-hash-sub", "m-hash-sub2"):
        return "G12-math-hash-attach-blank"
    if seed == "mk-strong-list":
        return "G13-strong-with-list-marker"
    if seed in STRIP_SEEDS or "\u00a0" in t or "\u3000" in t or prop == "C10":
        return "G01-strip-edits-content"
    if prop == "C13":
        return "G09-range-formatting-context"
    if prop == "C02":
        # (the element id is prog:gap:<seed>:<ctx>:...)
        pid = v["id"].split(":")
        pseed = pid[2] if len(pid) > 2 else ""
        if pseed in ("m-hash-sub", "m-hash-sub2"):
            return "G12-math-hash-attach-blank"
        if pseed == "mk-strong-list":
            return "G13-strong-with-list-marker"
        if pseed in STRIP_SEEDS:
            return "G01-strip-edits-content"
        if pseed in LIST_SEEDS:
            return "G04-list-item-continuation-unit"
        return "G11-content-edge-whitespace-observable"
    if prop == "C12" and (seed.startswith("m-") or seed.startswith("cm-math") or seed == "cm-markup-ml") and not off:
        return "G08-flow-line-comment-indent"
    if seed in ("m-tr-lb", "mk-lb") or "\\\n" in t and prop in ("C04", "C09") and seed.startswith("m-"):
        return "G05-backslash-glue"
    if prop == "C12" and (v["id"].startswith("fix:unit/markup/term-indent") or seed == "mk-term" and not off):
        return "G08-flow-line-comment-indent"
    if off and prop in ("C01", "C03", "C07", "C08", "C12", "C06"):
        return "G03-off-region-keeps-source-indentation"
    if seed in ("clos-body-asg", "show-fn", "clos-body-if", "clos-body-blk") and prop in ("C01", "C04", "C06"):
        return "G06-closure-body-braces-with-comment"
    if prop == "C09":
        return "G07-math-delimited-trivia"
    if seed in LIST_SEEDS and prop in ("C01", "C08", "C12"):
        if any(x in ("bcm", "bcb", "bc", "bcs", "bcn") for x in triv) and prop in ("C01", "C08") and ctx not in ("item", "enum", "term"):
            return "G10-comment-column-shifts-nesting"
        return "G04-list-item-continuation-unit"
    if prop == "C03":
        if ctx in SUPPRESSED_CTX or seed.startswith("m-") or seed.startswith("cm-math"):
            return "G02-suppressed-context-multiline"
        if seed in LIST_SEEDS:
            return "G04-list-item-continuation-unit"
        return "G90-other-nonconvergence"
    return "G99-other"


def fmt(text, w, tab):
    p = subprocess.run([os.path.join(V, "harness/target/release/vt"), "fmt", "/dev/stdin", "--w", str(w), "--tab", str(tab)],
                       input=text, text=True, capture_output=True)
    return p.stdout if p.returncode == 0 else "<%s>" % p.stderr.strip()


def main():
    args = [a for a in sys.argv[1:] if not a.startswith("--")]
    kf_path = os.path.join(V, "known_findings.json")
    old = json.load(open(kf_path)) if os.path.exists(kf_path) else {"groups": [], "fixed": []}
    groups = {g["group"]: dict(g, properties=[], elements={}, examples=[]) for g in GROUPS}
    # keep what is already listed for properties that are not re-triaged now
    for g in old.get("groups", []):
        if g["group"] not in groups:
            continue
        for prop, els in g.get("elements", {}).items():
            if prop not in args:
                groups[g["group"]]["elements"][prop] = els
        groups[g["group"]]["examples"] = [e for e in g.get("examples", []) if e.get("property") not in args]
    for prop in args:
        p = os.path.join(V, "work", "triage", prop + ".ndjson")
        if not os.path.exists(p):
            print("no triage dump for", prop)
            continue
        # when merging, the already listed elements of this property stay listed
        if "--merge" in sys.argv:
            keep = None
            hp = os.path.join(V, "work", "triage", prop + ".hit.json")
            if "--prune" in sys.argv:
                # after a repair: a listed element stays listed only if it still failed in this (whole-universe) run
                keep = set()
                for k in json.load(open(hp)):
                    keep.add(k)
                    keep.add("|".join(k.split("|")[1:]))
            for g in old.get("groups", []):
                if g["group"] in groups and prop in g.get("elements", {}):
                    groups[g["group"]]["elements"].setdefault(prop, [])
                    els = g["elements"][prop]
                    if keep is not None:
                        n0 = len(els)
                        els = [e for e in els if e in keep or "|".join(e.split("|")[1:]) in keep]
                        if n0 != len(els):
                            print("pruned %d of %d listed elements of %s in %s" % (n0 - len(els), n0, prop, g["group"]))
                    groups[g["group"]]["elements"][prop] += els
        n = 0
        for line in open(p):
            r = json.loads(line)
            g = classify(prop, r["v"], r.get("text"))
            G = groups[g]
            G["elements"].setdefault(prop, []).append(r["key"])
            n += 1
            if sum(1 for e in G["examples"] if e["property"] == prop) < 2 and r.get("text") is not None and len(r["text"]) < 400:
                v = r["v"]
                ex = dict(property=prop, relation=v.get("r"), id=v["id"], input=r["text"],
                          config=dict(max_width=v.get("w"), tab_spaces=v.get("tab")))
                if isinstance(v.get("w"), int):
                    o1 = fmt(r["text"], v["w"], v.get("tab", 2))
                    ex["output"] = o1
                    if prop == "C03":
                        ex["second_run"] = fmt(o1, v["w"], v.get("tab", 2))
                G["examples"].append(ex)
        print(prop, "classified", n)
    out_groups = []
    for g in GROUPS:
        G = groups[g["group"]]
        G["elements"] = {k: sorted(set(v)) for k, v in G["elements"].items() if v}
        G["properties"] = sorted(G["elements"])
        if G["elements"]:
            G["instances"] = {k: len(v) for k, v in G["elements"].items()}
            out_groups.append(G)
    kf = dict(version=1,
              note="Genuine defects of typstyle that the checks reproduce on the current tree and that are recorded rather than "
                   "repaired (DESIGN.md §8). Grouped by root cause; identified by the exact universe element "
                   "'<element id>|<sha of the input>|t<tab>|b<blank lines>|r<reorder>'. A violation of a listed element prints "
                   "KNOWN-FINDING; any other violation is a VIOLATION. Written only by the maintainer tool lib/triage.py.",
              groups=out_groups, fixed=FIXED)
    with open(kf_path, "w") as f:
        json.dump(kf, f, indent=0, ensure_ascii=False)
    for G in out_groups:
        print("%-45s %s" % (G["group"], G["instances"]))


if __name__ == "__main__":
    main()
