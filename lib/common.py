"""Shared machinery for /verif/bin/check: build, record, TLC runs, known findings, evidence."""
import concurrent.futures as cf
import glob
import hashlib
import json
import os
import re
import shutil
import subprocess
import sys
import time

VERIF = os.path.dirname(os.path.dirname(os.path.abspath(__file__)))
REPO = os.environ.get("VERIF_REPO", "/repo")
SPEC = os.path.join(VERIF, "spec")
HARNESS = os.path.join(VERIF, "harness")
VT = os.path.join(HARNESS, "target", "release", "vt")
WORK = os.path.join(VERIF, "work")
TLA_JAR = "/opt/veriftools/tla/tla2tools.jar"


class ToolError(Exception):
    pass


def log(*a):
    print("[check]", *a, file=sys.stderr, flush=True)


def run(cmd, timeout=None, env=None, cwd=None, check=True, capture=True):
    e = dict(os.environ)
    if env:
        e.update(env)
    try:
        p = subprocess.run(cmd, cwd=cwd, env=e, timeout=timeout, text=True,
                           stdout=subprocess.PIPE if capture else None,
                           stderr=subprocess.STDOUT if capture else None)
    except subprocess.TimeoutExpired:
        raise ToolError("timeout: %s" % " ".join(map(str, cmd))[:300])
    if check and p.returncode != 0:
        raise ToolError("command failed (%d): %s\n%s" % (p.returncode, " ".join(map(str, cmd))[:300],
                                                         (p.stdout or "")[-3000:]))
    return p


def build_cli():
    """Build the typstyle CLI binary from /repo's working tree (guard off: the CLI needs no hooks)."""
    t0 = time.time()
    run(["cargo", "build", "--release", "--offline", "--quiet", "-p", "typstyle", "--target-dir",
         os.path.join(HARNESS, "target-cli")], cwd=REPO, timeout=1800, env={"CARGO_NET_OFFLINE": "true"})
    b = os.path.join(HARNESS, "target-cli", "release", "typstyle")
    if not os.path.exists(b):
        raise ToolError("CLI binary missing")
    return b, time.time() - t0


def build_harness():
    """Rebuild the harness (and with it /repo's crates from the current working tree)."""
    t0 = time.time()
    run(["cargo", "build", "--release", "--offline", "--quiet"], cwd=HARNESS, timeout=1800,
        env={"CARGO_NET_OFFLINE": "true"})
    if not os.path.exists(VT):
        raise ToolError("harness binary missing")
    return time.time() - t0


def fresh_dir(path):
    shutil.rmtree(path, ignore_errors=True)
    os.makedirs(path, exist_ok=True)
    return path


def record(outdir, **kw):
    """Run `vt record`; returns the summary dict."""
    cmd = [VT, "record", "--outdir", outdir, "--verif", VERIF,
           "--fixtures", os.path.join(REPO, "tests", "fixtures")]
    for k, v in kw.items():
        cmd += ["--" + k.replace("_", "-"), str(v)]
    run(cmd, timeout=3600)
    return json.load(open(os.path.join(outdir, "summary.json")))


TLC_STATS = re.compile(r"(\d+) states generated, (\d+) distinct states found")


def tlc(spec, cfg_text, workdir, env=None, workers=1, xmx="3g", timeout=3000, extra=None):
    """Run TLC on /verif/spec/<spec>.tla with the given cfg text.  Returns stdout."""
    os.makedirs(workdir, exist_ok=True)
    cfg = os.path.join(workdir, spec + ".cfg")
    with open(cfg, "w") as f:
        f.write(cfg_text)
    tmp = os.path.join(workdir, "tmp")
    os.makedirs(tmp, exist_ok=True)
    e = {"JAVA_TOOL_OPTIONS": "-Xss1g -Xmx%s -Djava.io.tmpdir=%s -XX:+UseParallelGC" % (xmx, tmp)}
    if env:
        e.update(env)
    cmd = ["timeout", str(timeout), "java", "-cp", TLA_JAR + ":/opt/veriftools/tla/*", "tlc2.TLC",
           "-workers", str(workers), "-metadir", os.path.join(workdir, "meta"), "-cleanup",
           "-noGenerateSpecTE", "-checkpoint", "0", "-config", cfg] + (extra or []) + [os.path.join(SPEC, spec + ".tla")]
    p = run(cmd, env=e, check=False, timeout=timeout + 30, cwd=SPEC)
    shutil.rmtree(tmp, ignore_errors=True)
    shutil.rmtree(os.path.join(workdir, "meta"), ignore_errors=True)
    return p.returncode, p.stdout


def tlc_cmd_exists():
    return os.path.exists(TLA_JAR)


def parse_tlc_tuple_lines(out, tag):
    """Lines printed by PrintT(<<"TAG", ...>>): returns the raw text after the tag."""
    res = []
    pref = '<<"%s", ' % tag
    for line in out.splitlines():
        if line.startswith(pref) and line.endswith(">>"):
            res.append(line[len(pref):-2])
    return res


def unquote_tla_string(s):
    # TLC prints strings with \" and \\ escapes
    assert s.startswith('"') and s.endswith('"'), s[:80]
    body = s[1:-1]
    out = []
    i = 0
    while i < len(body):
        c = body[i]
        if c == "\\" and i + 1 < len(body):
            n = body[i + 1]
            out.append({"n": "\n", "t": "\t", "r": "\r", "f": "\f"}.get(n, n))
            i += 2
        else:
            out.append(c)
            i += 1
    return "".join(out)


def validate_traces(spec, consts, shards, workdir, jobs=8, xmx="3g", timeout=3000, specname="Spec"):
    """Run one TLC JVM per shard (monitor-style trace validation).

    Returns dict(viol=[...], events=n, checked=n, states=n, transitions=n, traces=n)."""
    cfg = "SPECIFICATION %s\nINVARIANT Done\nCHECK_DEADLOCK FALSE\n" % specname + consts
    shards = [s for s in shards if os.path.getsize(s) > 0]

    def one(i_s):
        i, s = i_s
        wd = os.path.join(workdir, "tlc-%02d" % i)
        rc, out = tlc(spec, cfg, wd, env={"TRACE": s}, xmx=xmx, timeout=timeout)
        return s, rc, out

    res = dict(viol=[], events=0, checked=0, states=0, transitions=0, traces=0)
    with cf.ThreadPoolExecutor(max_workers=jobs) as ex:
        for s, rc, out in ex.map(one, list(enumerate(shards))):
            done = parse_tlc_tuple_lines(out, "DONE")
            if rc != 0 or not done:
                with open(os.path.join(workdir, "tlc-failure.log"), "w") as f:
                    f.write(out)
                raise ToolError("TLC did not consume trace %s (rc=%d); see %s\n%s" % (
                    s, rc, os.path.join(workdir, "tlc-failure.log"), out[-2500:]))
            n, chk, nv = [int(x) for x in done[-1].split(",")]
            res["events"] += n
            res["checked"] += chk
            res["traces"] += 1
            m = TLC_STATS.search(out)
            if m:
                res["transitions"] += int(m.group(1))
                res["states"] += int(m.group(2))
            vs = [json.loads(unquote_tla_string(v)) for v in parse_tlc_tuple_lines(out, "VIOL")]
            if len(vs) != nv:
                raise ToolError("VIOL lines (%d) != counter (%d) for %s" % (len(vs), nv, s))
            res["viol"] += vs
    return res


def model_check(spec, cfg_text, workdir, workers=8, xmx="6g", timeout=1800, extra=None, coverage=False):
    """Exhaustive design check of an L2 module.  Returns dict(ok, states, transitions, out).
    (-coverage makes TLC run out of memory on specifications with nested LET RECURSIVE operators, so it is opt-in.)"""
    rc, out = tlc(spec, cfg_text, workdir, workers=workers, xmx=xmx, timeout=timeout,
                  extra=(extra or []) + (["-coverage", "1"] if coverage else []))
    m = TLC_STATS.search(out)
    ok = rc == 0 and "No error has been found" in out
    return dict(ok=ok, rc=rc, states=int(m.group(2)) if m else 0,
                transitions=int(m.group(1)) if m else 0, out=out)


# ---------------------------------------------------------------------------------------
# known findings

def load_known():
    p = os.path.join(VERIF, "known_findings.json")
    if not os.path.exists(p):
        return {"groups": [], "fixed": []}
    return json.load(open(p))


def sha_key(key):
    """'<id>|<sha>|t..|b..|r..' -> '<sha>|t..|b..|r..' (None when there is no input digest)."""
    parts = key.split("|")
    if len(parts) >= 5 and parts[-4]:
        return "|".join(parts[-4:])
    return None


def known_index(prop):
    """key -> group name, for the given property.  An element is identified by the digest of its input text and the
    configuration; the universe element id is kept in the file for the reader (identical texts reached through
    different placements are recorded once, under the id that came first)."""
    idx = {}
    for g in load_known().get("groups", []):
        if prop not in g.get("properties", []):
            continue
        for el in g.get("elements", {}).get(prop, []):
            idx[el] = g["group"]
            sk = sha_key(el)
            if sk:
                idx[sk] = g["group"]
    return idx


def known_lookup(idx, key):
    if key in idx:
        return idx[key]
    sk = sha_key(key)
    return idx.get(sk) if sk else None


def viol_key(v):
    return "%s|%s|t%s|b%s|r%d" % (v["id"], v["sha"], v.get("tab", 2), v.get("bl", 2), 1 if v.get("ro") else 0)


def load_inputs(recdirs):
    m = {}
    for d in recdirs:
        p = os.path.join(d, "inputs.ndjson")
        if os.path.exists(p):
            for line in open(p):
                r = json.loads(line)
                m[r["id"]] = r
    return m


def write_replay(prop, v, inputs, extra=None):
    d = os.path.join(VERIF, "replays", prop)
    os.makedirs(d, exist_ok=True)
    inp = inputs.get(v["id"], {})
    body = dict(property=prop, relation=v.get("r"), id=v["id"], sha=v.get("sha"),
                config=dict(max_width=v.get("w"), tab_spaces=v.get("tab", 2),
                            blank_lines_upper_bound=v.get("bl", 2), reorder_import_items=bool(v.get("ro"))),
                input=inp.get("text"))
    if extra:
        body.update(extra)
    h = hashlib.sha256(json.dumps(body, sort_keys=True).encode()).hexdigest()[:16]
    p = os.path.join(d, h + ".json")
    with open(p, "w") as f:
        json.dump(body, f, indent=1, ensure_ascii=False)
    return p


def write_evidence(prop, tier, seed, level, coverage, wall_s, violations, assumptions):
    os.makedirs(os.path.join(VERIF, "evidence"), exist_ok=True)
    ev = dict(property_id=prop, tier=tier, seed=seed, level=level, coverage=coverage,
              assumptions=assumptions, wall_s=round(wall_s, 1), violations=violations)
    with open(os.path.join(VERIF, "evidence", prop + ".json"), "w") as f:
        json.dump(ev, f, indent=1, ensure_ascii=False)
    return ev
