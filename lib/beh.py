"""U-beh: behaviours of the L2 layout models (TLC-generated) concretised into Typst sources, and the
comparison of the model's predicted text with the real formatter's output (drift, never a verdict)."""
import hashlib
import json
import os

import common as C

LIST_CFG = ("SPECIFICATION Spec\nCONSTANTS Inst = \"%s\"\n MaxLen = %d\n MaxItems = %d\n MaxCmt = %d\n MaxNl = %d\n"
            " MaxW = %d\n Unit = %d\n GenOn = %s\nINVARIANTS %s\nCHECK_DEADLOCK FALSE\n")
LIST_INVS = "InvTermination InvConservation InvNoDoubleBlank InvIndentUnit InvHygiene WidthStable InvConvergence"

DELIMS = {"array": ("#(", ")"), "dict": ("#(", ")"), "args": ("#f(", ")"), "paren": ("#(", ")"), "block": ("#{", "}"),
          "eq": ("$", "$")}


def concretise_list(inst, seq):
    d0, d1 = DELIMS[inst]
    parts = []
    for ev in seq:
        e = ev["e"]
        if e == "item":
            parts.append(ev["txt"])
        elif e in ("bc", "lc"):
            parts.append(ev["txt"])
        elif e == "comma":
            parts.append(",")
        elif e == "sp":
            parts.append(" ")
        elif e == "nl":
            parts.append("\n" * ev["n"])
    return d0 + "".join(parts) + d1 + "\n"


def list_behaviours(workdir, inst, maxlen, maxitems=3, maxcmt=2, maxnl=2, maxw=24, unit=2, gen=True, workers=8, timeout=1500):
    """Runs the design check of ListMC for one call site; with gen also returns the behaviours."""
    if inst == "eq":
        maxitems = 1
    cfg = LIST_CFG % (inst, maxlen, maxitems, maxcmt, maxnl, maxw, unit, "TRUE" if gen else "FALSE",
                      LIST_INVS + (" Gen" if gen else ""))
    r = C.model_check("ListMC", cfg, workdir, workers=workers, xmx="8g", timeout=timeout)
    behs = []
    if gen:
        for g in C.parse_tlc_tuple_lines(r["out"], "GEN"):
            j = json.loads(C.unquote_tla_string(g))
            text = concretise_list(inst, j["seq"])
            j["text"] = text
            j["id"] = "beh:list:%s:%s" % (inst, hashlib.sha256(text.encode()).hexdigest()[:12])
            behs.append(j)
    return r, behs


def drift(workdir, behs, maxw, unit, pred="pred", ro=False):
    """Format every behaviour with the real code at widths 0..maxw; count disagreements with the model."""
    inp = os.path.join(workdir, "beh-inputs%s.ndjson" % ("-ro" if ro else ""))
    with open(inp, "w") as f:
        for b in behs:
            f.write(json.dumps({"id": b["id"], "text": b["text"]}) + "\n")
    outp = os.path.join(workdir, "beh-outputs%s.ndjson" % ("-ro" if ro else ""))
    C.run([C.VT, "outputs", "--input", inp, "--out", outp, "--maxw", str(maxw), "--tab", str(unit), "--ro", "true" if ro else "false"],
          timeout=1500)
    real = {}
    for line in open(outp):
        r = json.loads(line)
        real[r["id"]] = r
    n = d = env_gap = 0
    samples = []
    for b in behs:
        r = real[b["id"]]
        if r["perr"]:
            env_gap += 1          # the grammar environment produced a source the parser rejects
            continue
        for w in sorted(int(k) for k in b[pred]):          # the widths the model predicted (0..MaxW or a set)
            n += 1
            if r["real"][w] != b[pred][str(w)]:
                d += 1
                if len(samples) < 5:
                    samples.append(dict(id=b["id"], text=b["text"], w=w, model=b[pred][str(w)], real=r["real"][w], reorder=ro))
    return dict(comparisons=n, drift=d, env_gap=env_gap, samples=samples), inp


CHAIN_CFG = ("SPECIFICATION Spec\nCONSTANTS MaxLen = %d\n MaxOps = %d\n MaxCmt = %d\n MaxW = %d\n Unit = %d\n GenOn = %s\n"
             "INVARIANTS %s\nCHECK_DEADLOCK FALSE\n")
CHAIN_INVS = "InvTermination InvConservation InvNoDoubleBlank InvIndentUnit InvHygiene InvConvergence"


def concretise_events(seq):
    parts = []
    for ev in seq:
        e = ev["e"]
        if e in ("item", "opd", "op", "bc", "lc", "txt", "code", "arg", "args"):
            parts.append(ev["txt"])
        elif e == "comma":
            parts.append(",")
        elif e == "sp":
            parts.append(" ")
        elif e == "nl":
            parts.append("\n" * ev["n"] + " " * ev.get("ind", 0))
        elif e == "par":
            parts.append("\n" * ev["n"])
    return "".join(parts)


def chain_behaviours(workdir, maxlen, maxops=3, maxcmt=2, maxw=30, unit=2, gen=True, workers=8, timeout=1500):
    cfg = CHAIN_CFG % (maxlen, maxops, maxcmt, maxw, unit, "TRUE" if gen else "FALSE", CHAIN_INVS + (" Gen" if gen else ""))
    r = C.model_check("ChainMC", cfg, workdir, workers=workers, xmx="8g", timeout=timeout)
    behs = []
    if gen:
        for g in C.parse_tlc_tuple_lines(r["out"], "GEN"):
            j = json.loads(C.unquote_tla_string(g))
            j["text"] = "#(" + concretise_events(j["seq"]) + ", z9)\n"
            j["id"] = "beh:chain:%s" % hashlib.sha256(j["text"].encode()).hexdigest()[:12]
            behs.append(j)
    return r, behs


MARKUP_CFG = ("SPECIFICATION Spec\nCONSTANTS MaxLen = %d\n MaxCmt = %d\n MaxW = %d\n Unit = %d\n GenOn = %s\n"
              "INVARIANTS %s\nCHECK_DEADLOCK FALSE\n")
MARKUP_INVS = "InvTermination InvConservation InvHygiene InvIndentUnit InvProseLines InvConvergence"


def markup_behaviours(workdir, maxlen, maxcmt=2, maxw=20, unit=2, gen=True, workers=8, timeout=1500):
    cfg = MARKUP_CFG % (maxlen, maxcmt, maxw, unit, "TRUE" if gen else "FALSE", MARKUP_INVS + (" Gen" if gen else ""))
    r = C.model_check("MarkupMC", cfg, workdir, workers=workers, xmx="8g", timeout=timeout)
    behs = []
    if gen:
        for g in C.parse_tlc_tuple_lines(r["out"], "GEN"):
            j = json.loads(C.unquote_tla_string(g))
            body = "".join(("#" + ev["txt"]) if ev["e"] == "code" else concretise_events([ev]) for ev in j["seq"])
            j["text"] = "#f[" + body + "]\n"
            j["id"] = "beh:markup:%s" % hashlib.sha256(j["text"].encode()).hexdigest()[:12]
            behs.append(j)
    return r, behs


FLOW_CFG = ("SPECIFICATION Spec\nCONSTANTS MaxLen = %d\n MaxOps = %d\n MaxCmt = %d\n MaxW = %d\n Unit = %d\n GenOn = %s\n"
            "INVARIANTS %s\nCHECK_DEADLOCK FALSE\n")
FLOW_INVS = "InvConservation InvNoDoubleBlank InvIndentUnit InvHygiene InvBreakSafety InvDelimBalance"


def flow_behaviours(workdir, maxlen, maxops=2, maxcmt=2, maxw=30, unit=2, gen=True, workers=8, timeout=1500):
    cfg = FLOW_CFG % (maxlen, maxops, maxcmt, maxw, unit, "TRUE" if gen else "FALSE", FLOW_INVS + (" Gen" if gen else ""))
    r = C.model_check("FlowMC", cfg, workdir, workers=workers, xmx="8g", timeout=timeout)
    behs = []
    if gen:
        for g in C.parse_tlc_tuple_lines(r["out"], "GEN"):
            j = json.loads(C.unquote_tla_string(g))
            j["text"] = "#" + "".join(ev["txt"] if "txt" in ev else concretise_events([ev]) for ev in j["seq"]) + "\n"
            j["id"] = "beh:flow:%s" % hashlib.sha256(j["text"].encode()).hexdigest()[:12]
            behs.append(j)
    return r, behs


MATHARGS_CFG = ("SPECIFICATION Spec\nCONSTANTS MaxLen = %d\n MaxArgs = 3\n MaxCmt = %d\n MaxW = %d\n Unit = %d\n GenOn = %s\n"
                "INVARIANTS %s\nCHECK_DEADLOCK FALSE\n")
MATHARGS_INVS = "InvTermination InvConservation InvHygiene InvLineFeedsKept"
MATHDELIM_CFG = ("SPECIFICATION Spec\nCONSTANTS MaxLen = %d\n MaxCmt = %d\n MaxW = %d\n Unit = %d\n GenOn = %s\n Block = %s\n"
                 "INVARIANTS %s\nCHECK_DEADLOCK FALSE\n")
MATHDELIM_INVS = "InvTermination InvConservation InvHygiene"          # InvLineFeedsKept fails for inline equations: G07


def _flow_text(seq):
    return "".join(ev["txt"] if "txt" in ev else concretise_events([ev]) for ev in seq)


def mathargs_behaviours(workdir, maxlen, maxcmt=2, maxw=24, unit=2, gen=True, workers=8, timeout=1500):
    cfg = MATHARGS_CFG % (maxlen, maxcmt, maxw, unit, "TRUE" if gen else "FALSE", MATHARGS_INVS + (" Gen" if gen else ""))
    r = C.model_check("MathArgsMC", cfg, workdir, workers=workers, xmx="8g", timeout=timeout)
    behs = []
    if gen:
        for g in C.parse_tlc_tuple_lines(r["out"], "GEN"):
            j = json.loads(C.unquote_tla_string(g))
            j["text"] = "$ vec(" + _flow_text(j["seq"]) + ") $\n"
            j["id"] = "beh:mathargs:%s" % hashlib.sha256(j["text"].encode()).hexdigest()[:12]
            behs.append(j)
    return r, behs


def mathdelim_behaviours(workdir, maxlen, block, maxcmt=2, maxw=24, unit=2, gen=True, workers=8, timeout=1500):
    cfg = MATHDELIM_CFG % (maxlen, maxcmt, maxw, unit, "TRUE" if gen else "FALSE", "TRUE" if block else "FALSE",
                           MATHDELIM_INVS + (" Gen" if gen else ""))
    r = C.model_check("MathDelimMC", cfg, workdir, workers=workers, xmx="8g", timeout=timeout)
    behs = []
    if gen:
        for g in C.parse_tlc_tuple_lines(r["out"], "GEN"):
            j = json.loads(C.unquote_tla_string(g))
            inner = "(" + _flow_text(j["seq"]) + ")"
            j["text"] = ("$ " + inner + " $\n") if block else ("$" + inner + "$\n")
            j["id"] = "beh:mathdelim:%s" % hashlib.sha256(j["text"].encode()).hexdigest()[:12]
            behs.append(j)
    return r, behs


TABLE_CFG = ("SPECIFICATION Spec\nCONSTANTS ArgKinds = {%s}\n MaxArgs = %d\n MaxCells = %d\n MaxTriv = %d\n MaxCmt = %d\n"
             " MaxNl = %d\n MaxW = %d\n Unit = %d\n GenOn = %s\n RawName = FALSE\nINVARIANTS %s\nCHECK_DEADLOCK FALSE\n")
TABLE_INVS = "InvTermination InvConservation InvIndentUnit InvRowShape InvConvergence"


def table_behaviours(workdir, kinds, maxargs, maxcells=3, maxtriv=1, maxcmt=1, maxnl=2, maxw=24, unit=2, gen=True, workers=8,
                     timeout=1500):
    """TableMC: the argument list of a table / grid call (is_formatable_table, convert_table, PlainStylist)."""
    cfg = TABLE_CFG % (", ".join('"%s"' % k for k in kinds), maxargs, maxcells, maxtriv, maxcmt, maxnl, maxw, unit,
                       "TRUE" if gen else "FALSE", TABLE_INVS + (" Gen" if gen else ""))
    r = C.model_check("TableMC", cfg, workdir, workers=workers, xmx="8g", timeout=timeout)
    behs = []
    if gen:
        for g in C.parse_tlc_tuple_lines(r["out"], "GEN"):
            j = json.loads(C.unquote_tla_string(g))
            j["text"] = "#table(" + concretise_events(j["seq"]) + ")\n"
            j["id"] = "beh:table:%s" % hashlib.sha256(j["text"].encode()).hexdigest()[:12]
            behs.append(j)
    return r, behs


DOT_CFG = ("SPECIFICATION Spec\nCONSTANTS MaxLen = %d\n MaxOps = %d\n MaxCmt = %d\n MaxArgs = %d\n ArgKinds = {%s}\n"
           " NlIndents = {%s}\n Widths = {%s}\n Unit = %d\n GenOn = %s\n EstFromSource = FALSE\nINVARIANTS %s\nCHECK_DEADLOCK FALSE\n")
DOT_INVS = "InvTermination InvConservation InvNoDoubleBlank InvIndentUnit InvHygiene InvDotTight InvConvergence"
DOT_WIDTHS = [0, 4, 8, 10, 12, 14, 16, 18, 20, 22, 24, 28, 32, 36, 40, 44]


def dotchain_behaviours(workdir, maxlen, maxops=2, maxcmt=1, maxargs=1, kinds=("x", "L"), indents=(0, 14), widths=DOT_WIDTHS,
                        unit=2, gen=True, workers=8, timeout=1500):
    """DotChainMC: try_convert_dot_chain (one-line form vs breakable chain, chain_width) + ChainStylist for dots."""
    cfg = DOT_CFG % (maxlen, maxops, maxcmt, maxargs, ", ".join('"%s"' % k for k in kinds), ", ".join(map(str, indents)),
                     ", ".join(map(str, widths)), unit, "TRUE" if gen else "FALSE", DOT_INVS + (" Gen" if gen else ""))
    r = C.model_check("DotChainMC", cfg, workdir, workers=workers, xmx="8g", timeout=timeout)
    behs = []
    if gen:
        for g in C.parse_tlc_tuple_lines(r["out"], "GEN"):
            j = json.loads(C.unquote_tla_string(g))
            j["text"] = "#(" + concretise_events(j["seq"]) + ", z9)\n"
            j["id"] = "beh:dotchain:%s" % hashlib.sha256(j["text"].encode()).hexdigest()[:12]
            behs.append(j)
    return r, behs


COMMENT_CFG = ("SPECIFICATION Spec\nCONSTANTS MaxLines = %d\n Leads = {%s}\n MidBodies = {\"c1\", \"* s1\", \"\"}\n"
               " EndBodies = {\"*/\", \"c9 */\", \"* s9 */\"}\n Places = {\"after\", \"before\", \"mid\", \"own\"}\n MaxW = %d\n"
               " Unit = %d\n GenOn = %s\n AsFoundC = {}\nINVARIANTS %s\nCHECK_DEADLOCK FALSE\n")
COMMENT_INVS = "InvTextKept InvFirstLine InvRelative InvBullet InvHygiene InvConvergence"


def comment_behaviours(workdir, maxlines, leads=(0, 1, 3, 6), maxw=16, unit=2, gen=True, workers=8, timeout=1500):
    """CommentMC: multi-line block comments (plain / bullet style) in a content block."""
    cfg = COMMENT_CFG % (maxlines, ", ".join(map(str, leads)), maxw, unit, "TRUE" if gen else "FALSE",
                         COMMENT_INVS + (" Gen" if gen else ""))
    r = C.model_check("CommentMC", cfg, workdir, workers=workers, xmx="8g", timeout=timeout)
    behs = []
    if gen:
        for g in C.parse_tlc_tuple_lines(r["out"], "GEN"):
            j = json.loads(C.unquote_tla_string(g))
            cm = "\n".join(j["src"])
            body = {"after": "w1 " + cm, "before": cm + " xx2", "mid": "w1 " + cm + " xx2", "own": "w1\n" + cm + "\nxx2"}[j["place"]]
            j["text"] = "#f[" + body + "]\n"
            j["id"] = "beh:comment:%s" % hashlib.sha256(j["text"].encode()).hexdigest()[:12]
            behs.append(j)
    return r, behs


IMPORT_CFG = ("SPECIFICATION Spec\nCONSTANTS ItemIds = {%s}\n MaxItems = %d\n MaxTriv = %d\n MaxCmt = %d\n Widths = {%s}\n"
              " Unit = %d\n GenOn = %s\n AsFoundI = {}\nINVARIANTS %s\nCHECK_DEADLOCK FALSE\n")
IMPORT_WIDTHS = [0, 16, 20, 24, 28, 32, 40]


def import_behaviours(workdir, ids=("a", "ab", "b", "ma"), maxitems=3, maxtriv=1, maxcmt=1, widths=IMPORT_WIDTHS, unit=2, gen=True,
                      workers=8, timeout=1500):
    """ImportMC: the items of an import statement with reordering off (pred) and on (pred_on)."""
    cfg = IMPORT_CFG % (", ".join('"%s"' % k for k in ids), maxitems, maxtriv, maxcmt, ", ".join(map(str, widths)), unit,
                        "TRUE" if gen else "FALSE", "InvAll" + (" Gen" if gen else ""))
    r = C.model_check("ImportMC", cfg, workdir, workers=workers, xmx="8g", timeout=timeout)
    behs = []
    if gen:
        for g in C.parse_tlc_tuple_lines(r["out"], "GEN"):
            j = json.loads(C.unquote_tla_string(g))
            body = concretise_events(j["seq"])
            j["text"] = "#import \"m.typ\": " + (("(" + body + ")") if j["paren"] else body) + "\n"
            j["id"] = "beh:import:%s" % hashlib.sha256(j["text"].encode()).hexdigest()[:12]
            behs.append(j)
    return r, behs


MODE_CFG = ("SPECIFICATION Spec\nCONSTANTS MaxDepth = %d\n Wrappers = {\"args\", \"array\", \"paren\", \"block\", \"cb\"}\n"
            " Chains = {\"bin\", \"dot\"}\n MaxW = %d\n Unit = %d\n GenOn = %s\n AsFoundM = {}\nINVARIANTS %s\nCHECK_DEADLOCK FALSE\n")
MODE_INVS = "InvBreakSafety InvBalanced InvConservation InvIndentUnit InvHygiene InvFlatAtWidth"


def mode_behaviours(workdir, depth, maxw=44, unit=2, gen=True, workers=8, timeout=1500):
    """ModeMC: nested constructs (args / array / paren / block / content block) over a binary or dot chain — the Mode
    lattice and the optional parentheses."""
    cfg = MODE_CFG % (depth, maxw, unit, "TRUE" if gen else "FALSE", MODE_INVS + (" Gen" if gen else ""))
    r = C.model_check("ModeMC", cfg, workdir, workers=workers, xmx="8g", timeout=timeout)
    behs = []
    if gen:
        for g in C.parse_tlc_tuple_lines(r["out"], "GEN"):
            j = json.loads(C.unquote_tla_string(g))
            j["text"] = j["src"] + "\n"
            j["id"] = "beh:mode:%s" % hashlib.sha256(j["text"].encode()).hexdigest()[:12]
            behs.append(j)
    return r, behs


ITEM_CFG = ("SPECIFICATION Spec\nCONSTANTS MaxDepth = %d\n MaxElems = %d\n Unit = %d\n GenOn = %s\nINVARIANTS %s\nCHECK_DEADLOCK FALSE\n")
ITEM_INVS = "InvNestingPlain InvIndentUnit InvWidthFree"


def item_behaviours(workdir, depth, elems, unit=2, gen=True, workers=4, timeout=1500):
    """ItemMC: nested list items (marker, body of scope Item, nest by one unit); `- - a` shapes included (G04)."""
    cfg = ITEM_CFG % (depth, elems, unit, "TRUE" if gen else "FALSE", ITEM_INVS + (" Gen" if gen else ""))
    r = C.model_check("ItemMC", cfg, workdir, workers=workers, xmx="4g", timeout=timeout)
    behs = []
    if gen:
        for g in C.parse_tlc_tuple_lines(r["out"], "GEN"):
            j = json.loads(C.unquote_tla_string(g))
            j["text"] = j["src"]
            j["id"] = "beh:item:%s" % hashlib.sha256(j["text"].encode()).hexdigest()[:12]
            behs.append(j)
    return r, behs
