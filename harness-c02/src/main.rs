//! vt2 — C02: compiles original and formatted programs with the real Typst compiler and logs the
//! observations (pages, per-page pixel digest, document metadata, or the diagnostics).  Judges nothing.

use std::{
    collections::BTreeMap,
    fs,
    io::{BufWriter, Write},
    panic::{catch_unwind, AssertUnwindSafe},
    path::PathBuf,
};

use rayon::prelude::*;
use serde_json::{json, Value};
use sha2::{Digest, Sha256};
use typst::layout::PagedDocument;
use typstyle_core::{Config, Typstyle};

fn sha(b: &[u8]) -> String {
    let mut h = Sha256::new();
    h.update(b);
    h.finalize().iter().take(12).map(|x| format!("{:02x}", x)).collect()
}

/// What the compiler says about a text: either the laid-out document or the diagnostics.
fn observe(text: &str) -> Value {
    let r = catch_unwind(AssertUnwindSafe(|| -> Value {
        let univ = match typstyle_consistency::universe::make_universe(text) {
            Ok(u) => u,
            Err(e) => return json!({"kind": "world-error", "msg": e.to_string()}),
        };
        match typst::compile::<PagedDocument>(&univ.snapshot()).output {
            Ok(doc) => {
                let pages: Vec<Value> = doc
                    .pages
                    .iter()
                    .map(|p| {
                        let pm = typst_render::render(p, 2.0);
                        json!({"w": pm.width(), "h": pm.height(), "px": sha(pm.data())})
                    })
                    .collect();
                json!({"kind": "ok", "pages": pages,
                       "title": format!("{:?}", doc.info.title), "author": format!("{:?}", doc.info.author),
                       "keywords": format!("{:?}", doc.info.keywords)})
            }
            Err(diags) => {
                let msgs: Vec<String> = diags.iter().map(|d| d.message.to_string()).collect();
                json!({"kind": "err", "n": msgs.len(), "msgs": msgs})
            }
        }
    }));
    r.unwrap_or_else(|_| json!({"kind": "compiler-panic"}))
}

fn main() {
    std::panic::set_hook(Box::new(|_| {}));
    let args: Vec<String> = std::env::args().collect();
    let get = |k: &str, d: &str| -> String {
        args.iter().position(|a| a == k).and_then(|i| args.get(i + 1)).cloned().unwrap_or_else(|| d.to_string())
    };
    let input = get("--input", "");
    let outdir = PathBuf::from(get("--outdir", "work/c02"));
    let shards: usize = get("--shards", "8").parse().unwrap();
    let widths: Vec<usize> = get("--widths", "0,20,40,80,120").split(',').map(|x| x.parse().unwrap()).collect();
    let tabs: Vec<usize> = get("--tabs", "2").split(',').map(|x| x.parse().unwrap()).collect();
    let threads: usize = get("--threads", "12").parse().unwrap();
    rayon::ThreadPoolBuilder::new().num_threads(threads).stack_size(64 << 20).build_global().unwrap();
    fs::create_dir_all(&outdir).unwrap();
    let progs: Vec<(String, String)> = fs::read_to_string(&input)
        .expect("input")
        .lines()
        .map(|l| {
            let v: Value = serde_json::from_str(l).unwrap();
            (v["id"].as_str().unwrap().to_string(), v["text"].as_str().unwrap().to_string())
        })
        .collect();
    let res: Vec<Vec<String>> = progs
        .par_iter()
        .map(|(id, text)| {
            if typst_syntax::Source::detached(text.as_str()).root().erroneous() {
                return vec![];
            }
            let obs_in = observe(text);
            // distinct outputs over the configurations
            let mut outs: BTreeMap<String, (Vec<(usize, usize)>, String)> = BTreeMap::new();
            for &tab in &tabs {
                for &w in &widths {
                    let cfg = Config { max_width: w, tab_spaces: tab, ..Default::default() };
                    if let Ok(Ok(o)) = catch_unwind(AssertUnwindSafe(|| Typstyle::new(cfg).format_content(text.as_str()))) {
                        outs.entry(sha(o.as_bytes())).or_insert_with(|| (vec![], o)).0.push((w, tab));
                    }
                }
            }
            let mut evs = vec![];
            for (_, (cfgs, o)) in outs {
                let same = &o == text;
                let obs_out = if same { obs_in.clone() } else { observe(&o) };
                evs.push(
                    json!({"ev": "obs", "id": id, "sha": sha(text.as_bytes()), "w": cfgs[0].0, "tab": cfgs[0].1, "bl": 2, "ro": false,
                           "ws": cfgs.iter().map(|c| c.0).collect::<Vec<_>>(), "outcome": "ok", "same": same,
                           "obs_in": obs_in, "obs_out": obs_out})
                    .to_string(),
                );
            }
            evs
        })
        .collect();
    let mut writers: Vec<BufWriter<fs::File>> = (0..shards)
        .map(|i| BufWriter::new(fs::File::create(outdir.join(format!("shard-{:02}.ndjson", i))).unwrap()))
        .collect();
    let mut inputs = BufWriter::new(fs::File::create(outdir.join("inputs.ndjson")).unwrap());
    let (mut n, mut nt, mut compiled) = (0u64, 0u64, 0u64);
    let mut samples = vec![];
    for (i, evs) in res.into_iter().enumerate() {
        writeln!(inputs, "{}", json!({"id": progs[i].0, "sha": sha(progs[i].1.as_bytes()), "text": progs[i].1})).unwrap();
        for e in evs {
            let v: Value = serde_json::from_str(&e).unwrap();
            if v["same"] == json!(false) {
                nt += 1;
            }
            if v["obs_in"]["kind"] == json!("ok") {
                compiled += 1;
                if samples.len() < 4 && v["same"] == json!(false) {
                    samples.push(json!({"id": v["id"], "pages": v["obs_in"]["pages"]}));
                }
            }
            writeln!(writers[i % shards], "{}", e).unwrap();
            n += 1;
        }
    }
    for w in writers.iter_mut() {
        w.flush().unwrap();
    }
    inputs.flush().unwrap();
    let s = json!({"universe": "prog", "elements": progs.len(), "events": n, "format_calls": n, "nontrivial_events": nt,
                   "universe_stats": {"events_whose_original_compiles": compiled}, "samples": samples});
    fs::write(outdir.join("summary.json"), s.to_string()).unwrap();
    println!("{}", s);
}
