//! Replays `Cli.tla` scenarios against the real `typstyle` binary and records what happened
//! (exit status, stdout, bytes + mtime of every file, syscall trace) as `cli` events.

use std::{
    collections::BTreeMap,
    fs,
    io::Write,
    path::{Path, PathBuf},
    process::{Command, Stdio},
    time::{Duration, SystemTime},
};

use rayon::prelude::*;
use serde_json::{json, Value};
use typst_syntax::Source;
use typstyle_core::{Config, Typstyle};

use crate::universe::sha_hex;

const LINK_TARGET: &str = ".g/e.typ";
const DIRS: [&str; 5] = ["w/s", "w/.g", "w/x.typ", "w/.r", "w/.r/s"];

const F_VARIANTS: [&str; 4] = [
    "= Title\n\nsome text\n",
    "#let x = 1\n",
    "#f(a, b)\n\n- item\n",
    "$ a + b $\n",
];
const U_VARIANTS: [&str; 6] = [
    "#let   x=1\n",
    "text without final newline",
    "#f(a,b)   \n\n\n\n\nmore\n",
    "#let x = f(aaaaaaaaaa, bbbbbbbbbb, cccccccccc, dddddddddd, eeeeeeeeee, ffffffffff, gggggggggg)\n",
    "#import \"a.typ\": zeta, alpha\n#{\n      let y = (1,2,\n   3)\n}\n",
    "",
];
const E_VARIANTS: [&str; 3] = ["#let x = (\n", "#{\n", "text $ a\n"];
const X_BYTES: [u8; 4] = [0xff, 0xfe, b'\n', 0x80];

#[derive(Clone, Copy)]
struct Style {
    c: Option<usize>,
    t: Option<usize>,
    ro: bool,
}
const STYLES: [Style; 8] = [
    Style { c: None, t: None, ro: false },
    Style { c: Some(40), t: None, ro: false },
    Style { c: None, t: Some(4), ro: false },
    Style { c: Some(120), t: Some(3), ro: false },
    Style { c: None, t: None, ro: true },
    Style { c: Some(0), t: Some(1), ro: true },
    Style { c: Some(79), t: Some(8), ro: false },
    Style { c: Some(400), t: Some(0), ro: false },
];

impl Style {
    fn config(self) -> Config {
        Config {
            max_width: self.c.unwrap_or(80),
            tab_spaces: self.t.unwrap_or(2),
            reorder_import_items: self.ro,
            ..Default::default()
        }
    }
    fn argv(self) -> Vec<String> {
        let mut v = vec![];
        if let Some(c) = self.c {
            v.push("-c".into());
            v.push(c.to_string());
        }
        if let Some(t) = self.t {
            v.push("--tab-width".into());
            v.push(t.to_string());
        }
        if self.ro {
            v.push("--reorder-import-items".into());
        }
        v
    }
}

fn h(id: &str, salt: &str, n: usize) -> usize {
    let s = sha_hex(&format!("{id}|{salt}"));
    usize::from_str_radix(&s[..8], 16).unwrap() % n
}

fn content_for(cls: &str, id: &str, path: &str) -> Vec<u8> {
    match cls {
        "F" => F_VARIANTS[h(id, path, F_VARIANTS.len())].as_bytes().to_vec(),
        "U" => U_VARIANTS[h(id, path, U_VARIANTS.len())].as_bytes().to_vec(),
        "E" => E_VARIANTS[h(id, path, E_VARIANTS.len())].as_bytes().to_vec(),
        "X" => X_BYTES.to_vec(),
        _ => unreachable!(),
    }
}

/// Classify bytes with the library: X not UTF-8, E erroneous, F fixed point, U otherwise; the
/// formatted text is returned for U and F.
fn lib_class(bytes: &[u8], cfg: &Config) -> (&'static str, Option<String>) {
    let Ok(text) = std::str::from_utf8(bytes) else {
        return ("X", None);
    };
    let src = Source::detached(text);
    if src.root().erroneous() {
        return ("E", None);
    }
    match Typstyle::new(cfg.clone()).format_content(text) {
        Ok(out) => {
            if out == text {
                ("F", Some(out))
            } else {
                ("U", Some(out))
            }
        }
        Err(_) => ("E", None),
    }
}

fn past() -> SystemTime {
    SystemTime::UNIX_EPOCH + Duration::from_secs(978_307_200) // 2001-01-01
}

fn set_past(p: &Path) {
    let f = fs::File::options().write(true).open(p);
    if let Ok(f) = f {
        let _ = f.set_modified(past());
    }
}

fn nonblank_lines(s: &str) -> Vec<String> {
    s.lines()
        .filter(|l| !l.trim().is_empty())
        .map(|l| l.to_string())
        .collect()
}

fn parse_strace(log: &str, wdir: &Path) -> Vec<Value> {
    let mut out = vec![];
    let wabs = wdir.to_string_lossy().to_string();
    for line in log.lines() {
        let Some(i) = line.find("openat(") else {
            continue;
        };
        let rest = &line[i..];
        let Some(q1) = rest.find('"') else { continue };
        let Some(q2) = rest[q1 + 1..].find('"') else {
            continue;
        };
        let path = &rest[q1 + 1..q1 + 1 + q2];
        let flags = &rest[q1 + 1 + q2..];
        let rel = if let Some(r) = path.strip_prefix(&wabs) {
            format!("w{}", r)
        } else if path.starts_with('/') {
            continue; // outside the scenario (libraries, /proc, ...)
        } else {
            let p = path.trim_start_matches("./");
            if p == "." || p.is_empty() {
                "w".to_string()
            } else {
                format!("w/{}", p)
            }
        };
        let ok = !flags.contains("= -1");
        let op = if flags.contains("O_WRONLY") || flags.contains("O_RDWR") {
            "wopen"
        } else if flags.contains("O_DIRECTORY") {
            "dopen"
        } else {
            "ropen"
        };
        out.push(json!({"op": op, "path": rel, "ok": ok}));
    }
    out
}

struct RunObs {
    exit: i64,
    stdout: String,
    stdout_bytes: Vec<u8>,
    sys: Vec<Value>,
    straced: bool,
}

fn run_once(bin: &Path, wdir: &Path, argv: &[String], stdin: Option<&[u8]>, strace: bool, logp: &Path) -> RunObs {
    let mut cmd = if strace {
        let mut c = Command::new("strace");
        c.args(["-f", "-qq", "-e", "trace=openat", "-o"]).arg(logp).arg(bin);
        c
    } else {
        Command::new(bin)
    };
    cmd.args(argv)
        .current_dir(wdir)
        .env("NO_COLOR", "1")
        .stdin(if stdin.is_some() { Stdio::piped() } else { Stdio::null() })
        .stdout(Stdio::piped())
        .stderr(Stdio::piped());
    let mut child = cmd.spawn().expect("spawn typstyle");
    if let Some(data) = stdin {
        let mut si = child.stdin.take().unwrap();
        let _ = si.write_all(data);
    }
    let out = child.wait_with_output().expect("wait");
    let sys = if strace {
        let log = fs::read_to_string(logp).unwrap_or_default();
        let _ = fs::remove_file(logp);
        parse_strace(&log, wdir)
    } else {
        vec![]
    };
    RunObs {
        exit: out.status.code().map(|c| c as i64).unwrap_or(-1),
        stdout: String::from_utf8_lossy(&out.stdout).to_string(),
        stdout_bytes: out.stdout.clone(),
        sys,
        straced: strace,
    }
}

fn observe(wdir: &Path, orig: &BTreeMap<String, Vec<u8>>, fmt: &BTreeMap<String, Option<String>>, slots: &[String], links: &[String]) -> Value {
    let mut m = serde_json::Map::new();
    for s in slots {
        let p = wdir.parent().unwrap().join(s);
        if links.contains(s) {
            // the link itself: still a link to the same target?
            let same = fs::symlink_metadata(&p).map(|m| m.file_type().is_symlink()).unwrap_or(false)
                && fs::read_link(&p).map(|t| t == Path::new(LINK_TARGET)).unwrap_or(false);
            m.insert(s.clone(), json!({"eq": if same { "same" } else { "other" }, "mtime": !same}));
            continue;
        }
        let st = match (orig.get(s), fs::read(&p)) {
            (None, Err(_)) => json!({"eq": "same", "mtime": false}),
            (None, Ok(_)) => json!({"eq": "other", "mtime": true}),
            (Some(_), Err(_)) => json!({"eq": "other", "mtime": true}),
            (Some(o), Ok(now)) => {
                let mt = fs::metadata(&p).and_then(|m| m.modified()).ok();
                let changed = mt != Some(past());
                let eq = if &now == o {
                    "same"
                } else if fmt.get(s).and_then(|f| f.as_ref()).is_some_and(|f| f.as_bytes() == now.as_slice()) {
                    "fmt"
                } else {
                    "other"
                };
                json!({"eq": eq, "mtime": changed})
            }
        };
        m.insert(s.clone(), st);
    }
    Value::Object(m)
}

pub fn run_scenarios(scen_path: &Path, bin: &Path, work: &Path, out_dir: &Path, shards: usize, strace_every: usize) -> Value {
    let text = fs::read_to_string(scen_path).expect("scenarios");
    let scens: Vec<Value> = text.lines().filter(|l| !l.trim().is_empty()).map(|l| serde_json::from_str(l).expect("scenario json")).collect();
    fs::create_dir_all(out_dir).unwrap();
    let _ = fs::remove_dir_all(work);
    fs::create_dir_all(work).unwrap();
    let results: Vec<(usize, Vec<String>)> = scens
        .par_iter()
        .enumerate()
        .map(|(idx, sc)| {
            let id = sc["id"].as_str().map(|s| s.to_string()).unwrap_or_else(|| format!("scen{idx}"));
            let base = work.join(format!("s{idx}"));
            let wdir = base.join("w");
            fs::create_dir_all(&wdir).unwrap();
            for d in DIRS {
                fs::create_dir_all(base.join(d)).unwrap();
            }
            let style = STYLES[h(&id, "style", STYLES.len())];
            let cfg = style.config();
            let mut orig: BTreeMap<String, Vec<u8>> = BTreeMap::new();
            let mut fmt: BTreeMap<String, Option<String>> = BTreeMap::new();
            let mut fs0 = serde_json::Map::new();
            let mut slots: Vec<String> = vec![];
            let mut links: Vec<String> = vec![];
            for (slot, v) in sc["fs0"].as_object().unwrap() {
                slots.push(slot.clone());
                let cls = v["cls"].as_str().unwrap();
                if cls == "A" {
                    fs0.insert(slot.clone(), json!({"cls": "A", "req": "A"}));
                    continue;
                }
                if cls == "L" {
                    // a symbolic link named *.typ to the file in the hidden directory
                    let p = base.join(slot);
                    let _ = fs::remove_file(&p);
                    std::os::unix::fs::symlink(LINK_TARGET, &p).unwrap();
                    fs0.insert(slot.clone(), json!({"cls": "L", "req": "L"}));
                    links.push(slot.clone());
                    continue;
                }
                let bytes = content_for(cls, &id, slot);
                let p = base.join(slot);
                fs::write(&p, &bytes).unwrap();
                set_past(&p);
                let (lc, f) = lib_class(&bytes, &cfg);
                fs0.insert(slot.clone(), json!({"cls": lc, "req": cls}));
                fmt.insert(slot.clone(), f);
                orig.insert(slot.clone(), bytes);
            }
            let inv = &sc["inv"];
            let kind = inv["kind"].as_str().unwrap();
            let mode = inv["mode"].as_str().unwrap();
            let mut argv: Vec<String> = vec![];
            let mut stdin_data: Option<Vec<u8>> = None;
            let mut inv_out = inv.clone();
            let mut texts = serde_json::Map::new();
            match kind {
                "list" => {
                    match mode {
                        "inplace" => argv.push("-i".into()),
                        "check" => argv.push("--check".into()),
                        _ => {}
                    }
                    for a in inv["args"].as_array().unwrap() {
                        argv.push(a.as_str().unwrap().trim_start_matches("w/").to_string());
                    }
                }
                "stdin" => {
                    if mode == "check" {
                        argv.push("--check".into());
                    }
                    let bytes = content_for(inv["cls"].as_str().unwrap(), &id, "stdin");
                    let (lc, f) = lib_class(&bytes, &cfg);
                    inv_out["cls"] = json!(lc);
                    texts.insert("stdin".into(), json!({"orig": String::from_utf8_lossy(&bytes), "fmt": f.unwrap_or_default()}));
                    stdin_data = Some(bytes);
                }
                "noinput" => argv.push("-i".into()),
                "all" => {
                    argv.push("format-all".into());
                    let arg = inv["root"]["arg"].as_str().unwrap();
                    if arg != "none" {
                        argv.push(arg.to_string());
                    }
                    if mode == "check" {
                        argv.push("--check".into());
                    }
                }
                _ => unreachable!(),
            }
            argv.extend(style.argv());
            for (slot, bytes) in &orig {
                if let Ok(t) = std::str::from_utf8(bytes) {
                    texts.insert(slot.clone(), json!({"orig": t, "fmt": fmt[slot].clone().unwrap_or_default()}));
                }
            }
            let fmt_lines: Vec<String> = fmt.values().flatten().flat_map(|f| nonblank_lines(f)).chain(texts.get("stdin").map(|t| nonblank_lines(t["fmt"].as_str().unwrap())).unwrap_or_default()).collect();
            let strace = strace_every > 0 && idx % strace_every == 0;
            let logp = base.join("strace.log");
            let mut events = vec![];
            let mut fs_after1 = Value::Null;
            for run in 1..=2 {
                if run == 2 {
                    // make a write during the second run visible again
                    for slot in orig.keys() {
                        set_past(&base.join(slot));
                    }
                }
                let ob = run_once(bin, &wdir, &argv, stdin_data.as_deref(), strace, &logp);
                let fs_now = observe(&wdir, &orig, &fmt, &slots, &links);
                let ev = json!({
                    "ev": "cli", "id": id, "run": run, "inv": inv_out, "argv": argv,
                    "style": {"c": cfg.max_width, "t": cfg.tab_spaces, "ro": cfg.reorder_import_items},
                    "fs0": fs0, "fs": fs_now, "fs1": if run == 1 { fs_now.clone() } else { fs_after1.clone() },
                    "exit": ob.exit, "stdout": ob.stdout, "stdout_lines": nonblank_lines(&ob.stdout),
                    "texts": texts, "fmt_lines": fmt_lines, "sys": ob.sys, "straced": ob.straced,
                    "pred": sc.get("pred").cloned().unwrap_or(Value::Null),
                });
                if run == 1 {
                    fs_after1 = fs_now;
                }
                events.push(ev.to_string());
            }
            let _ = fs::remove_dir_all(&base);
            (idx, events)
        })
        .collect();
    let mut writers: Vec<std::io::BufWriter<fs::File>> = (0..shards)
        .map(|i| std::io::BufWriter::new(fs::File::create(out_dir.join(format!("shard-{:02}.ndjson", i))).unwrap()))
        .collect();
    let mut n = 0;
    for (idx, evs) in results {
        for e in evs {
            writeln!(writers[idx % shards], "{}", e).unwrap();
            n += 1;
        }
    }
    for w in writers.iter_mut() {
        w.flush().unwrap();
    }
    let _ = fs::remove_dir_all(work);
    let s = json!({"scenarios": scens.len(), "events": n});
    fs::write(out_dir.join("summary.json"), s.to_string()).unwrap();
    s
}

pub fn default_bin() -> PathBuf {
    PathBuf::from("/verif/harness/target-cli/release/typstyle")
}

// ---------------------------------------------------------------------------------------------
// C16: every front-end against the library, byte for byte

fn lib_expected(text: &str, cfg: &Config) -> String {
    match Typstyle::new(cfg.clone()).format_content(text) {
        Ok(s) => s,
        Err(_) => text.to_string(),
    }
}

/// For each source x option set x front-end: sha of what the front-end produced and sha of what the
/// library returns for the same text and configuration (the input itself when it is erroneous).
pub fn run_frontends(sources: &[(String, String)], bin: &Path, work: &Path, out_dir: &Path, shards: usize, seed: u64) -> Value {
    fs::create_dir_all(out_dir).unwrap();
    let _ = fs::remove_dir_all(work);
    fs::create_dir_all(work).unwrap();
    let cols: [Option<usize>; 9] = [None, Some(0), Some(1), Some(20), Some(40), Some(79), Some(81), Some(120), Some(400)];
    let tabs: [Option<usize>; 7] = [None, Some(0), Some(1), Some(3), Some(4), Some(8), Some(16)];
    let results: Vec<Vec<String>> = sources
        .par_iter()
        .enumerate()
        .map(|(idx, (id, text))| {
            let mut evs = vec![];
            let base = work.join(format!("f{idx}"));
            // two option sets per source, chosen by hash (all combinations are covered across sources)
            for k in 0..2u64 {
                let hsel = h(id, &format!("opt{k}:{seed}"), cols.len() * tabs.len() * 2);
                let st = Style { c: cols[hsel % cols.len()], t: tabs[(hsel / cols.len()) % tabs.len()], ro: hsel / (cols.len() * tabs.len()) == 1 };
                let cfg = st.config();
                let expect = lib_expected(text, &cfg);
                let esha = sha_hex(&expect);
                let mk = |fe: &str, got: Option<Vec<u8>>, exit: i64, esha: &str, elen: usize| -> String {
                    let (gsha, glen) = match &got {
                        Some(b) => (sha_hex(&String::from_utf8_lossy(b)), b.len()),
                        None => ("none".to_string(), 0),
                    };
                    json!({"ev": "fe", "id": id, "sha": sha_hex(text), "fe": fe, "w": cfg.max_width, "tab": cfg.tab_spaces,
                           "bl": 2, "ro": cfg.reorder_import_items, "outcome": "ok",
                           "cli_sha": gsha, "cli_len": glen, "lib_sha": esha, "lib_len": elen, "exit": exit}).to_string()
                };
                let wdir = base.join(format!("o{k}"));
                fs::create_dir_all(wdir.join("d/sub")).unwrap();
                let argv = st.argv();
                // file -> stdout
                fs::write(wdir.join("a.typ"), text).unwrap();
                let mut a1 = vec!["a.typ".to_string()];
                a1.extend(argv.clone());
                let ob = run_once(bin, &wdir, &a1, None, false, &wdir.join("x.log"));
                evs.push(mk("file", Some(ob.stdout_bytes.clone()), ob.exit, &esha, expect.len()));
                // stdin -> stdout
                let ob = run_once(bin, &wdir, &argv, Some(text.as_bytes()), false, &wdir.join("x.log"));
                evs.push(mk("stdin", Some(ob.stdout_bytes.clone()), ob.exit, &esha, expect.len()));
                // three files concatenated (the source twice around a fixed formatted file)
                fs::write(wdir.join("b.typ"), "= T\n").unwrap();
                let mut a3 = vec!["a.typ".to_string(), "b.typ".to_string(), "a.typ".to_string()];
                a3.extend(argv.clone());
                let ob = run_once(bin, &wdir, &a3, None, false, &wdir.join("x.log"));
                let mid = lib_expected("= T\n", &cfg);
                let exp3 = format!("{expect}{mid}{expect}");
                evs.push(mk("three", Some(ob.stdout_bytes.clone()), ob.exit, &sha_hex(&exp3), exp3.len()));
                // in place
                let mut ai = vec!["-i".to_string(), "a.typ".to_string()];
                ai.extend(argv.clone());
                let ob = run_once(bin, &wdir, &ai, None, false, &wdir.join("x.log"));
                evs.push(mk("inplace", fs::read(wdir.join("a.typ")).ok(), ob.exit, &esha, expect.len()));
                // format-all on a nested file
                fs::write(wdir.join("d/sub/c.typ"), text).unwrap();
                let mut aa = vec!["format-all".to_string(), "d".to_string()];
                aa.extend(argv.clone());
                let ob = run_once(bin, &wdir, &aa, None, false, &wdir.join("x.log"));
                evs.push(mk("format-all", fs::read(wdir.join("d/sub/c.typ")).ok(), ob.exit, &esha, expect.len()));
                // the width-only convenience function (what the wasm build exports)
                if st.t.is_none() && !st.ro {
                    let got = typstyle_core::format_with_width(text, cfg.max_width);
                    evs.push(mk("format_with_width", Some(got.into_bytes()), 0, &esha, expect.len()));
                }
            }
            let _ = fs::remove_dir_all(&base);
            evs
        })
        .collect();
    let mut writers: Vec<std::io::BufWriter<fs::File>> = (0..shards)
        .map(|i| std::io::BufWriter::new(fs::File::create(out_dir.join(format!("shard-{:02}.ndjson", i))).unwrap()))
        .collect();
    let mut inputs = std::io::BufWriter::new(fs::File::create(out_dir.join("inputs.ndjson")).unwrap());
    for (id, t) in sources {
        writeln!(inputs, "{}", json!({"id": id, "sha": sha_hex(t), "text": t})).unwrap();
    }
    let mut n = 0u64;
    let mut nt = 0u64;
    for (i, evs) in results.into_iter().enumerate() {
        for e in evs {
            if !e.contains("\"fe\":\"format_with_width\"") {
                nt += 1;
            }
            writeln!(writers[i % shards], "{}", e).unwrap();
            n += 1;
        }
    }
    for w in writers.iter_mut() {
        w.flush().unwrap();
    }
    inputs.flush().unwrap();
    let _ = fs::remove_dir_all(work);
    let s = json!({"universe": "frontends", "elements": sources.len(), "events": n, "format_calls": n, "nontrivial_events": nt,
                   "universe_stats": {}, "samples": [{"id": sources.first().map(|s| s.0.clone())}]});
    fs::write(out_dir.join("summary.json"), s.to_string()).unwrap();
    s
}
