//! Export of the Doc IR of the real formatter (through the public `format_source_inspect` inspector and the public
//! variants of `pretty::Doc`) for the replay through DocRender.tla.  Copies, never judges.

use pretty::{Doc, RefDoc};
use serde_json::{json, Value};
use typst_syntax::Source;
use typstyle_core::{Config, Typstyle};

fn text(s: &str, n: usize) -> Value {
    json!({"o": "t", "s": s, "n": n})
}

/// One node of the Doc IR; `unknown` counts what could not be opened (a Column / Nesting closure of another shape).
pub fn export<'a>(d: &Doc<'a, RefDoc<'a, ()>, ()>, nodes: &mut usize, unknown: &mut usize) -> Value {
    *nodes += 1;
    match d {
        Doc::Nil => json!({"o": "nil"}),
        Doc::Append(a, b) => json!({"o": "cat", "a": export(a, nodes, unknown), "b": export(b, nodes, unknown)}),
        Doc::Group(a) => json!({"o": "group", "a": export(a, nodes, unknown)}),
        Doc::FlatAlt(b, f) => json!({"o": "alt", "b": export(b, nodes, unknown), "f": export(f, nodes, unknown)}),
        Doc::Nest(k, a) => json!({"o": "nest", "k": *k as i64, "a": export(a, nodes, unknown)}),
        Doc::Hardline => json!({"o": "hl"}),
        Doc::RenderLen(n, a) => match &**a {
            Doc::OwnedText(s) => text(s, *n),
            Doc::BorrowedText(s) => text(s, *n),
            Doc::SmallText(s) => text(s.as_str(), *n),
            _ => {
                *unknown += 1;
                json!({"o": "nil"})
            }
        },
        Doc::OwnedText(s) => text(s, s.len()),
        Doc::BorrowedText(s) => text(s, s.len()),
        Doc::SmallText(s) => text(s.as_str(), s.len()),
        Doc::Column(f) => {
            // align(): column(|col| nesting(|ind| inner.nest(col - ind))); opened with the probe values col = 1, ind = 0
            let r = f(1);
            if let Doc::Nesting(g) = &*r {
                let r2 = g(0);
                if let Doc::Nest(1, inner) = &*r2 {
                    return json!({"o": "align", "a": export(inner, nodes, unknown)});
                }
                if let Doc::Nil = &*r2 {
                    return json!({"o": "nil"});
                }
            }
            *unknown += 1;
            json!({"o": "nil"})
        }
        _ => {
            *unknown += 1;
            json!({"o": "nil"})
        }
    }
}

/// For each width: the Doc of `text` under that configuration, the renderer's own pre-strip text and the final result.
pub fn doc_events(id: &str, text: &str, tab: usize, widths: &[usize]) -> Vec<Value> {
    let src = Source::detached(text);
    if src.root().erroneous() {
        return vec![];
    }
    let mut evs = vec![];
    for w in widths {
        let mut exported = Value::Null;
        let mut nodes = 0usize;
        let mut unknown = 0usize;
        let mut raw = String::new();
        let cfg = Config { tab_spaces: tab, max_width: *w, ..Default::default() };
        let res = Typstyle::new(cfg).format_source_inspect(&src, |doc| {
            let d: &Doc<'_, RefDoc<'_, ()>, ()> = &*doc.1;
            exported = export(d, &mut nodes, &mut unknown);
            raw = doc.pretty(*w).to_string();
        });
        if let Ok(out) = res {
            evs.push(json!({"ev": "doc", "id": format!("{id}@{w}"), "tab": tab, "nodes": nodes, "unknown": unknown, "doc": exported,
                            "rs": [{"w": w, "raw": raw, "out": out}]}));
        }
    }
    evs
}
