//! Finite, deterministic input universes (DESIGN.md §5).  `VERIF_SEED` only selects a slice.

use std::{collections::BTreeMap, fs, path::Path};

use sha2::{Digest, Sha256};
use typst_syntax::{LinkedNode, Source};

#[derive(Clone, Debug)]
pub struct Elem {
    pub id: String,
    pub text: String,
    pub tags: Vec<String>,
}

pub fn sha_hex(s: &str) -> String {
    let mut h = Sha256::new();
    h.update(s.as_bytes());
    let d = h.finalize();
    d.iter().take(12).map(|b| format!("{:02x}", b)).collect()
}

/// Deterministic slice selection: keep `id` iff hash(seed, id) mod denom < num.
pub fn pick(seed: u64, id: &str, num: u64, denom: u64) -> bool {
    if num >= denom {
        return true;
    }
    let mut h = Sha256::new();
    h.update(seed.to_le_bytes());
    h.update(id.as_bytes());
    let d = h.finalize();
    let v = u64::from_le_bytes(d[0..8].try_into().unwrap());
    v % denom < num
}

pub fn unescape(s: &str) -> String {
    let mut out = String::new();
    let mut it = s.chars().peekable();
    while let Some(c) = it.next() {
        if c != '\\' {
            out.push(c);
            continue;
        }
        match it.next() {
            Some('n') => out.push('\n'),
            Some('t') => out.push('\t'),
            Some('s') => out.push(' '),
            Some('r') => out.push('\r'),
            Some('\\') => out.push('\\'),
            Some('u') if it.peek() == Some(&'{') => {
                it.next();
                let mut hex = String::new();
                for h in it.by_ref() {
                    if h == '}' {
                        break;
                    }
                    hex.push(h);
                }
                out.push(char::from_u32(u32::from_str_radix(&hex, 16).unwrap()).unwrap());
            }
            Some(o) => {
                out.push('\\');
                out.push(o);
            }
            None => out.push('\\'),
        }
    }
    out
}

fn read_tsv(path: &Path, cols: usize) -> Vec<Vec<String>> {
    let s = fs::read_to_string(path).unwrap_or_else(|e| panic!("read {}: {e}", path.display()));
    let mut rows = vec![];
    for line in s.lines() {
        if line.starts_with('#') || line.is_empty() {
            continue;
        }
        let mut parts: Vec<String> = line.splitn(cols, '\t').map(|x| x.to_string()).collect();
        while parts.len() < cols {
            parts.push(String::new());
        }
        rows.push(parts);
    }
    rows
}

pub struct Seed {
    pub id: String,
    pub mode: String,
    pub tags: Vec<String>,
    pub text: String,
}
pub struct Ctx {
    pub mode: String,
    pub name: String,
    pub tpl: String,
}
pub struct Trivia {
    pub id: String,
    pub tags: Vec<String>,
    pub text: String,
}

pub struct Defs {
    pub seeds: Vec<Seed>,
    pub ctxs: Vec<Ctx>,
    pub trivia: Vec<Trivia>,
}

pub fn load_defs(dir: &Path) -> Defs {
    let seeds = read_tsv(&dir.join("seeds.tsv"), 4)
        .into_iter()
        .map(|r| Seed {
            id: r[0].clone(),
            mode: r[1].clone(),
            tags: r[2].split(',').map(|x| x.to_string()).collect(),
            text: unescape(&r[3]),
        })
        .collect();
    let ctxs = read_tsv(&dir.join("contexts.tsv"), 3)
        .into_iter()
        .map(|r| Ctx {
            mode: r[0].clone(),
            name: r[1].clone(),
            tpl: unescape(&r[2]),
        })
        .collect();
    let trivia = read_tsv(&dir.join("trivia.tsv"), 3)
        .into_iter()
        .map(|r| Trivia {
            id: r[0].clone(),
            tags: r[1].split(',').map(|x| x.to_string()).collect(),
            text: unescape(&r[2]),
        })
        .collect();
    Defs {
        seeds,
        ctxs,
        trivia,
    }
}

pub fn parses(text: &str) -> bool {
    !Source::detached(text).root().erroneous()
}

/// Byte offsets of all boundaries between CST leaves that lie in [lo, hi].
pub fn leaf_boundaries(text: &str, lo: usize, hi: usize) -> Vec<usize> {
    let src = Source::detached(text);
    let mut offs = vec![];
    fn rec(n: LinkedNode, offs: &mut Vec<usize>) {
        if n.children().len() == 0 {
            offs.push(n.range().start);
            offs.push(n.range().end);
        } else {
            for c in n.children() {
                rec(c, offs);
            }
        }
    }
    rec(LinkedNode::new(src.root()), &mut offs);
    offs.push(lo);
    offs.push(hi);
    offs.sort();
    offs.dedup();
    offs.into_iter().filter(|o| *o >= lo && *o <= hi).collect()
}

pub struct GapOpts {
    pub seed: u64,
    /// keep fraction num/denom of single-gap elements, chosen by the seed among `single_fixed`
    pub single: (u64, u64),
    /// the fixed, seed-independent slice of all single placements that belongs to the universe
    pub single_fixed: (u64, u64),
    /// keep fraction num/denom of pair elements (0 disables), chosen by the seed among `pair_fixed`
    pub pair: (u64, u64),
    /// the fixed, seed-independent slice of all pairs that belongs to the universe
    pub pair_fixed: (u64, u64),
    pub seed_tags: Vec<String>,
    pub trivia_tags: Vec<String>,
    pub ctx_filter: Vec<String>,
    /// seeds and trivia values tagged `opt` belong only to the universes that ask for them
    pub opt: bool,
}

fn tag_match(want: &[String], have: &[String]) -> bool {
    want.is_empty() || want.iter().any(|w| have.contains(w))
}

/// U-gap: every seed in every context of its mode, plus one trivia value at every leaf
/// boundary inside the hole (singles), plus pairs.  Only error-free texts are kept; the
/// count of dropped placements is returned for the evidence file.
pub fn gap(defs: &Defs, o: &GapOpts) -> (Vec<Elem>, BTreeMap<String, u64>) {
    let mut out = vec![];
    let mut stats: BTreeMap<String, u64> = BTreeMap::new();
    let mut bump = |k: &str| *stats.entry(k.to_string()).or_insert(0) += 1;
    for s in &defs.seeds {
        if !tag_match(&o.seed_tags, &s.tags) || (!o.opt && s.tags.iter().any(|t| t == "opt")) {
            continue;
        }
        // a tag `only:<ctx>+<ctx>` restricts a seed to the named embedding contexts
        let only: Vec<String> = s
            .tags
            .iter()
            .filter_map(|t| t.strip_prefix("only:"))
            .flat_map(|t| t.split('+').map(|x| x.to_string()))
            .collect();
        for c in defs.ctxs.iter().filter(|c| c.mode == s.mode) {
            if !o.ctx_filter.is_empty() && !o.ctx_filter.contains(&c.name) {
                continue;
            }
            if !only.is_empty() && !only.contains(&c.name) {
                continue;
            }
            let hs = c.tpl.find("@@").expect("hole");
            let full = format!("{}{}{}", &c.tpl[..hs], s.text, &c.tpl[hs + 2..]);
            let he = hs + s.text.len();
            if !parses(&full) {
                bump("context_illegal");
                continue;
            }
            bump("base");
            let mut tags = s.tags.clone();
            tags.push(format!("ctx-{}", c.name));
            out.push(Elem {
                id: format!("gap:{}:{}:base", s.id, c.name),
                text: full.clone(),
                tags: tags.clone(),
            });
            let offs = leaf_boundaries(&full, hs, he);
            let trivia: Vec<&Trivia> = defs
                .trivia
                .iter()
                .filter(|t| tag_match(&o.trivia_tags, &t.tags) && (o.opt || !t.tags.iter().any(|x| x == "opt")))
                .collect();
            for (gi, off) in offs.iter().enumerate() {
                for t in &trivia {
                    let id = format!("gap:{}:{}:g{}:{}", s.id, c.name, gi, t.id);
                    if !pick(0x5eed_f1ed, &id, o.single_fixed.0, o.single_fixed.1) || !pick(o.seed, &id, o.single.0, o.single.1) {
                        continue;
                    }
                    let text = format!("{}{}{}", &full[..*off], t.text, &full[*off..]);
                    if !parses(&text) {
                        bump("single_illegal");
                        continue;
                    }
                    bump("single");
                    let mut tg = tags.clone();
                    tg.push(format!("tr-{}", t.id));
                    out.push(Elem { id, text, tags: tg });
                }
            }
            if o.pair.0 > 0 {
                for (gi, off1) in offs.iter().enumerate() {
                    for (gj, off2) in offs.iter().enumerate().skip(gi) {
                        for t1 in &trivia {
                            for t2 in &trivia {
                                let id = format!(
                                    "gap2:{}:{}:g{}:{}:g{}:{}",
                                    s.id, c.name, gi, t1.id, gj, t2.id
                                );
                                if !pick(0x5eed_f1ed, &id, o.pair_fixed.0, o.pair_fixed.1)
                                    || !pick(o.seed, &id, o.pair.0, o.pair.1)
                                {
                                    continue;
                                }
                                // insert the later one first so offsets stay valid
                                let mut text =
                                    format!("{}{}{}", &full[..*off2], t2.text, &full[*off2..]);
                                text = format!("{}{}{}", &text[..*off1], t1.text, &text[*off1..]);
                                if !parses(&text) {
                                    bump("pair_illegal");
                                    continue;
                                }
                                bump("pair");
                                let mut tg = tags.clone();
                                tg.push(format!("tr-{}", t1.id));
                                tg.push(format!("tr-{}", t2.id));
                                out.push(Elem { id, text, tags: tg });
                            }
                        }
                    }
                }
            }
        }
    }
    (out, stats)
}

fn walk_typ(dir: &Path, out: &mut Vec<std::path::PathBuf>) {
    let mut ents: Vec<_> = fs::read_dir(dir)
        .unwrap_or_else(|e| panic!("read_dir {}: {e}", dir.display()))
        .filter_map(|e| e.ok())
        .map(|e| e.path())
        .collect();
    ents.sort();
    for p in ents {
        if p.is_dir() {
            walk_typ(&p, out);
        } else if p.extension().is_some_and(|e| e == "typ") {
            out.push(p);
        }
    }
}

/// U-fix: the repository's fixture sources (ids are paths relative to the fixture root).
pub fn fixtures(root: &Path, max_bytes: usize) -> Vec<Elem> {
    let mut files = vec![];
    walk_typ(root, &mut files);
    let mut out = vec![];
    for p in files {
        let Ok(text) = fs::read_to_string(&p) else {
            continue;
        };
        if text.len() > max_bytes {
            continue;
        }
        let rel = p.strip_prefix(root).unwrap().to_string_lossy().to_string();
        out.push(Elem {
            id: format!("fix:{}", rel),
            text,
            tags: vec!["fix".into()],
        });
    }
    out
}

/// U-fix chunks: each fixture split at top-level paragraph breaks into self-contained pieces
/// (<= max bytes) that parse without errors.
pub fn fixture_chunks(root: &Path, max_bytes: usize) -> Vec<Elem> {
    let mut out = vec![];
    for f in fixtures(root, usize::MAX) {
        let src = Source::detached(f.text.clone());
        if src.root().erroneous() {
            continue;
        }
        let mut cur_start = 0usize;
        let mut idx = 0;
        let root_node = LinkedNode::new(src.root());
        let mut cuts = vec![];
        for c in root_node.children() {
            if c.kind() == typst_syntax::SyntaxKind::Parbreak {
                cuts.push((c.range().start, c.range().end));
            }
        }
        cuts.push((f.text.len(), f.text.len()));
        for (a, b) in cuts {
            let piece = &f.text[cur_start..a];
            if !piece.trim().is_empty() && piece.len() <= max_bytes && parses(piece) {
                out.push(Elem {
                    id: format!("{}#{}", f.id.replacen("fix:", "chunk:", 1), idx),
                    text: format!("{}\n", piece),
                    tags: vec!["chunk".into()],
                });
            }
            idx += 1;
            cur_start = b;
        }
    }
    out
}
