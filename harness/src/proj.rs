//! Projections of what the real code did into JSON for the TLA+ trace specifications.
//!
//! Everything here *copies* (selects, splits, counts with Typst's own `is_newline`); no
//! function in this module compares an input with an output or judges anything.  All
//! judgement is in /verif/spec/*.tla and is evaluated by TLC.

use serde_json::{json, Map, Value};
use typst_syntax::ast::AstNode;
use typst_syntax::{ast, is_newline, LinkedNode, Source, SyntaxKind, SyntaxNode};
use typstyle_core::AttrStore;

pub fn kind_name(k: SyntaxKind) -> String {
    format!("{:?}", k)
}

/// Number of line breaks the way Typst's lexer counts them (CRLF is one).
pub fn count_newlines(s: &str) -> usize {
    let mut n = 0;
    let mut it = s.chars().peekable();
    while let Some(c) = it.next() {
        if is_newline(c) {
            if c == '\r' && it.peek() == Some(&'\n') {
                it.next();
            }
            n += 1;
        }
    }
    n
}

pub fn is_inner(node: &SyntaxNode) -> bool {
    node.children().len() > 0 || node.text().is_empty()
}

fn is_comment(k: SyntaxKind) -> bool {
    matches!(k, SyntaxKind::LineComment | SyntaxKind::BlockComment)
}

fn raw_info(node: &SyntaxNode) -> Value {
    let raw: ast::Raw = node.cast().expect("raw");
    let lines: Vec<Value> = raw
        .lines()
        .map(|t| Value::String(t.get().to_string()))
        .collect();
    let lang = raw.lang().map(|l| l.get().to_string()).unwrap_or_default();
    let fence = node
        .children()
        .next()
        .map(|d| d.text().len())
        .unwrap_or(0);
    json!({"lines": lines, "lang": lang, "block": raw.block(), "fence": fence})
}

fn text_words(t: &str) -> (Vec<Value>, bool, bool) {
    // Lossless tokenisation at U+0020: "a b" -> [a, b]; leading / trailing blank flagged.
    let parts: Vec<&str> = t.split(' ').collect();
    let lead = parts.first().map(|p| p.is_empty()).unwrap_or(false) && parts.len() > 1;
    let trail = parts.last().map(|p| p.is_empty()).unwrap_or(false) && parts.len() > 1;
    let ws: Vec<Value> = parts
        .iter()
        .filter(|p| !p.is_empty())
        .map(|p| Value::String(p.to_string()))
        .collect();
    (ws, lead, trail)
}

/// The concrete syntax tree, verbatim.
pub fn tree(node: &SyntaxNode) -> Value {
    let k = node.kind();
    if k == SyntaxKind::Raw {
        let info = raw_info(node);
        return json!({"k": "Raw", "inner": false, "t": "", "blk": info["block"], "lang": info["lang"]});
    }
    if !is_inner(node) {
        let t = node.text().as_str();
        return match k {
            SyntaxKind::Space | SyntaxKind::Parbreak => {
                json!({"k": kind_name(k), "inner": false, "t": "", "nl": count_newlines(t)})
            }
            SyntaxKind::Text => {
                let (ws, lead, trail) = text_words(t);
                json!({"k": "Text", "inner": false, "t": t, "ws": ws, "lead": lead, "trail": trail})
            }
            _ => json!({"k": kind_name(k), "inner": false, "t": t}),
        };
    }
    let c: Vec<Value> = node.children().map(tree).collect();
    json!({"k": kind_name(k), "inner": true, "c": c})
}

fn split_lf(t: &str) -> Vec<Value> {
    t.split('\n').map(|s| Value::String(s.to_string())).collect()
}

/// Flat views: `lv` pre-order leaf stream, `mk` children of every Markup node, `mt`
/// children of every Math / MathDelimited / Equation node.
pub struct Flat {
    pub lv: Vec<Value>,
    pub mk: Vec<Value>,
    pub mt: Vec<Value>,
}

impl Flat {
    pub fn to_value(self) -> Value {
        json!({"lv": self.lv, "mk": self.mk, "mt": self.mt})
    }
}

pub fn flat(root: &SyntaxNode) -> Flat {
    let mut f = Flat {
        lv: vec![],
        mk: vec![],
        mt: vec![],
    };
    walk(root, &mut f, false);
    f
}

fn leaf_entry(node: &SyntaxNode) -> Value {
    let k = node.kind();
    let t = node.text().as_str();
    let mut m = Map::new();
    m.insert("k".into(), Value::String(kind_name(k)));
    m.insert("t".into(), Value::String(t.to_string()));
    m.insert("nl".into(), json!(0));
    m.insert("nw".into(), json!(0));
    if is_comment(k) {
        m.insert("ls".into(), Value::Array(split_lf(t)));
    }
    if matches!(k, SyntaxKind::Space | SyntaxKind::Parbreak) {
        m.insert("nl".into(), json!(count_newlines(t)));
        m.insert("t".into(), Value::String(String::new()));
    }
    if k == SyntaxKind::Text {
        let (ws, _, _) = text_words(t);
        m.insert("nw".into(), json!(ws.len()));
        m.insert("ws".into(), Value::Array(ws));
    }
    if k == SyntaxKind::Str {
        m.insert("ls".into(), Value::Array(split_lf(t)));
    }
    Value::Object(m)
}

fn child_entry(node: &SyntaxNode, out: &mut Vec<Value>) {
    let k = node.kind();
    if k == SyntaxKind::Text {
        // Re-tokenise: the parser itself tokenises `We  use` and `We use` differently.
        let t = node.text().as_str();
        let mut first = true;
        for part in t.split(' ') {
            if !first {
                out.push(json!({"k": "Space", "t": "", "nl": 0, "in": true}));
            }
            first = false;
            if !part.is_empty() {
                out.push(json!({"k": "Word", "t": part, "nl": 0, "in": true}));
            }
        }
        return;
    }
    if matches!(k, SyntaxKind::Space | SyntaxKind::Parbreak) {
        out.push(json!({"k": kind_name(k), "t": "", "nl": count_newlines(node.text()), "in": false}));
        return;
    }
    if k == SyntaxKind::Raw || is_inner(node) {
        out.push(json!({"k": kind_name(k), "t": "", "nl": 0, "in": false}));
        return;
    }
    out.push(json!({"k": kind_name(k), "t": node.text().as_str(), "nl": 0, "in": false}));
}

fn walk(node: &SyntaxNode, f: &mut Flat, in_import: bool) {
    let k = node.kind();
    let in_import = in_import || k == SyntaxKind::ModuleImport;
    if k == SyntaxKind::Raw {
        f.lv.push(json!({"k": "Raw", "t": "", "nl": 0, "nw": 0, "raw": raw_info(node)}));
        return;
    }
    if !is_inner(node) {
        let mut e = leaf_entry(node);
        if is_comment(k) {
            // whether the comment lies inside an import statement (C06 under reordering)
            e["imp"] = json!(in_import);
        }
        f.lv.push(e);
        return;
    }
    if k == SyntaxKind::Markup {
        let mut cs = vec![];
        for c in node.children() {
            child_entry(c, &mut cs);
        }
        f.mk.push(Value::Array(cs));
    }
    let math_like = matches!(
        k,
        SyntaxKind::Math | SyntaxKind::MathDelimited | SyntaxKind::Equation
    );
    if math_like {
        let cs: Vec<Value> = node
            .children()
            .map(|c| {
                let ck = c.kind();
                let nl = if ck == SyntaxKind::Space {
                    count_newlines(c.text())
                } else {
                    0
                };
                json!({"k": kind_name(ck), "nl": nl})
            })
            .collect();
        f.mt.push(json!({"k": kind_name(k), "c": cs}));
    }
    for c in node.children() {
        walk(c, f, in_import);
    }
}

/// Lines of a text: lossless split at LF; per line its byte length, the number of leading
/// U+0020, the code point of its last character (0 for an empty line).
pub fn lines(text: &str) -> Vec<Value> {
    text.split('\n')
        .map(|l| {
            let ind = l.bytes().take_while(|b| *b == b' ').count();
            let last = l.chars().last().map(|c| c as u32).unwrap_or(0);
            json!({"n": l.len(), "ind": ind, "last": last})
        })
        .collect()
}

/// Multi-line tokens / verbatim regions of a (re-parsed) text, as line intervals (1-based,
/// first line .. last line).  Used by the indentation relation to know which continuation
/// lines carry indentation copied from the source.
pub fn multiline_spans(src: &Source) -> Vec<Value> {
    let text = src.text();
    let mut starts = vec![0usize];
    for (i, b) in text.bytes().enumerate() {
        if b == b'\n' {
            starts.push(i + 1);
        }
    }
    let line_of = |off: usize| -> usize {
        match starts.binary_search(&off) {
            Ok(i) => i + 1,
            Err(i) => i,
        }
    };
    let attrs = AttrStore::new(src.root());
    let mut out = vec![];
    fn rec(
        n: LinkedNode,
        attrs: &AttrStore,
        line_of: &dyn Fn(usize) -> usize,
        out: &mut Vec<Value>,
    ) {
        let k = n.kind();
        let r = n.range();
        let (a, b) = (line_of(r.start), line_of(r.end.max(r.start)));
        let disabled = attrs.is_format_disabled(n.get()) && !is_comment(k);
        let body_disabled = k == SyntaxKind::CodeBlock
            && n.get()
                .cast::<ast::CodeBlock>()
                .is_some_and(|cb| attrs.is_format_disabled(cb.body().to_untyped()));
        let verbatim_raw = k == SyntaxKind::Raw;
        let tok = matches!(k, SyntaxKind::BlockComment | SyntaxKind::Str);
        if (disabled || body_disabled || verbatim_raw || tok) && b > a {
            let kind = if disabled || body_disabled {
                "Disabled".to_string()
            } else {
                kind_name(k)
            };
            out.push(json!({"k": kind, "a": a, "b": b}));
        }
        if disabled || body_disabled || verbatim_raw {
            return;
        }
        for c in n.children() {
            rec(c, attrs, line_of, out);
        }
    }
    rec(LinkedNode::new(src.root()), &attrs, &line_of, &mut out);
    out
}

// ---------------------------------------------------------------------------------------------
// C19: import statements

fn leaf_texts(node: &SyntaxNode, out: &mut Vec<String>) {
    if !is_inner(node) {
        let k = node.kind();
        if k != SyntaxKind::Space && !is_comment(k) {
            out.push(node.text().to_string());
        }
    } else {
        for c in node.children() {
            leaf_texts(c, out);
        }
    }
}

fn has_comment_deep(node: &SyntaxNode) -> bool {
    is_comment(node.kind()) || node.children().any(has_comment_deep)
}

/// Every ModuleImport of the tree in pre-order: its items (text = significant leaves joined by
/// one blank, bound name, rank of the text in Rust `str` order among the items of the import),
/// and whether a comment occurs at or after the colon.
pub fn imports(root: &SyntaxNode) -> Vec<Value> {
    let mut out = vec![];
    let attrs = AttrStore::new(root);
    fn rec(n: &SyntaxNode, out: &mut Vec<Value>, attrs: &AttrStore, dis: bool) {
        // inside a region that `@typstyle off` reproduces verbatim (C07 takes precedence)
        let dis = dis
            || attrs.is_format_disabled(n)
            || n.cast::<ast::CodeBlock>()
                .is_some_and(|cb| attrs.is_format_disabled(cb.body().to_untyped()));
        if n.kind() == SyntaxKind::ModuleImport {
            let mut items: Vec<(String, String)> = vec![];
            let mut has_comment = false;
            let mut any_comment = false;
            for c in n.children() {
                if has_comment_deep(c) {
                    any_comment = true;
                    has_comment = true;
                }
                if c.kind() == SyntaxKind::ImportItems {
                    for it in c.children() {
                        let bound = match it.kind() {
                            SyntaxKind::ImportItemPath => it
                                .cast::<ast::ImportItemPath>()
                                .map(|p| p.name().as_str().to_string()),
                            SyntaxKind::RenamedImportItem => it
                                .cast::<ast::RenamedImportItem>()
                                .map(|p| p.new_name().as_str().to_string()),
                            _ => None,
                        };
                        if let Some(b) = bound {
                            // the item as printed: no blanks around dots, one around `as`
                            let mut ts = vec![];
                            leaf_texts(it, &mut ts);
                            let t: String = ts
                                .iter()
                                .map(|x| if x == "as" { " as ".to_string() } else { x.clone() })
                                .collect();
                            items.push((t, b));
                        }
                    }
                }
            }
            let mut sorted: Vec<&String> = items.iter().map(|x| &x.0).collect();
            sorted.sort();
            sorted.dedup();
            let its: Vec<Value> = items
                .iter()
                .map(|(t, b)| {
                    let rank = sorted.iter().position(|s| *s == t).unwrap();
                    json!({"text": t, "bound": b, "rank": rank})
                })
                .collect();
            out.push(json!({"items": its, "has_comment": has_comment, "any_comment": any_comment, "disabled": dis}));
        }
        for c in n.children() {
            rec(c, out, attrs, dis);
        }
    }
    rec(root, &mut out, &attrs, false);
    out
}

/// The significant leaf texts of the tree with every ImportItems subtree (and the optional
/// parentheses / trailing comma around it) left out.
pub fn rest_without_import_items(root: &SyntaxNode) -> Vec<Value> {
    let mut out = vec![];
    fn rec(n: &SyntaxNode, out: &mut Vec<Value>) {
        if n.kind() == SyntaxKind::ModuleImport {
            let mut after_colon = false;
            for c in n.children() {
                if !after_colon {
                    rec(c, out);
                }
                if c.kind() == SyntaxKind::Colon {
                    after_colon = true;
                }
            }
            return;
        }
        if !is_inner(n) {
            let k = n.kind();
            if k != SyntaxKind::Space && k != SyntaxKind::Parbreak {
                out.push(Value::String(n.text().to_string()));
            }
        } else {
            for c in n.children() {
                rec(c, out);
            }
        }
    }
    rec(root, &mut out);
    out
}

// ---------------------------------------------------------------------------------------------
// C07: `@typstyle off`

fn is_target_kind(n: &SyntaxNode) -> bool {
    n.is::<ast::Expr>() || matches!(n.kind(), SyntaxKind::Code | SyntaxKind::Math)
}

fn node_text(n: &SyntaxNode) -> String {
    n.clone().into_text().to_string()
}

/// Successive unwrappings of a node by optional delimiters: Parenthesized -> its expression;
/// a code block holding exactly one expression -> that expression.
fn unwrap_chain(n: &SyntaxNode, out: &mut Vec<Value>) {
    out.push(Value::Array(split_lf(&node_text(n))));
    match n.kind() {
        SyntaxKind::Parenthesized => {
            if let Some(inner) = n
                .children()
                .find(|c| !matches!(c.kind(), SyntaxKind::LeftParen | SyntaxKind::RightParen | SyntaxKind::Space) && !is_comment(c.kind()))
            {
                unwrap_chain(inner, out);
            }
        }
        SyntaxKind::CodeBlock => {
            if let Some(code) = n.children().find(|c| c.kind() == SyntaxKind::Code) {
                let exprs: Vec<&SyntaxNode> = code
                    .children()
                    .filter(|c| c.kind() != SyntaxKind::Space && !is_comment(c.kind()) && c.kind() != SyntaxKind::Semicolon)
                    .collect();
                if exprs.len() == 1 {
                    unwrap_chain(exprs[0], out);
                }
            }
        }
        _ => {}
    }
}

/// Every directive comment (pre-order) with the node that follows it (skipping Space and Hash):
/// kind, whether it is an expression / code body / math body, its text split at LF, the texts of
/// its successive unwrappings, and the text of the rest of the parent from that node on (for the
/// case where the printer dropped the delimiters that enclosed directive and node).
pub fn directives(root: &SyntaxNode) -> Vec<Value> {
    let mut out = vec![];
    fn rec(n: &SyntaxNode, out: &mut Vec<Value>) {
        let cs: Vec<&SyntaxNode> = n.children().collect();
        for (i, c) in cs.iter().enumerate() {
            if is_comment(c.kind()) && c.text().contains("@typstyle off") {
                let mut j = i + 1;
                while j < cs.len() && matches!(cs[j].kind(), SyntaxKind::Space | SyntaxKind::Hash) {
                    j += 1;
                }
                if j < cs.len() && !is_comment(cs[j].kind()) {
                    let t = cs[j];
                    let mut cands = vec![];
                    unwrap_chain(t, &mut cands);
                    // a comment may cross punctuation next to it (C06): also offer the node found
                    // when separators are skipped as well
                    let mut j2 = j;
                    while j2 < cs.len()
                        && matches!(
                            cs[j2].kind(),
                            SyntaxKind::Space | SyntaxKind::Hash | SyntaxKind::Comma | SyntaxKind::Semicolon
                        )
                    {
                        j2 += 1;
                    }
                    if j2 != j && j2 < cs.len() && !is_comment(cs[j2].kind()) {
                        unwrap_chain(cs[j2], &mut cands);
                    }
                    let rest: String = cs[j..].iter().map(|x| node_text(x)).collect();
                    out.push(json!({
                        "has": true, "k": kind_name(t.kind()), "target": is_target_kind(t),
                        "parent": kind_name(n.kind()),
                        "lines": split_lf(&node_text(t)), "cands": cands, "rest": split_lf(&rest),
                    }));
                } else {
                    out.push(json!({"has": false, "k": "", "target": false, "parent": kind_name(n.kind()),
                                    "lines": [], "cands": [], "rest": []}));
                }
            }
            rec(c, out);
        }
    }
    rec(root, &mut out);
    out
}

/// Output lines for the unit-scaling relation: indentation, the text after it, exemption.
pub fn unit_lines(text: &str, src: &Source, copied: &std::collections::BTreeSet<String>) -> Vec<Value> {
    let spans = multiline_spans(src);
    text.split('\n')
        .enumerate()
        .map(|(i, l)| {
            let ln = i + 1;
            let ind = l.bytes().take_while(|b| *b == b' ').count();
            let ex = spans.iter().any(|s| {
                (s["a"].as_u64().unwrap() as usize) < ln && ln <= s["b"].as_u64().unwrap() as usize
            }) || is_copied(l, copied);
            json!({"ind": ind, "rest": &l[ind..], "ex": ex})
        })
        .collect()
}

// ---------------------------------------------------------------------------------------------
// Attr.tla conformance: what the real AttrStore marked, node by node

/// For every inner node that has a comment child: the classes of its children and the (1-based) indices of the
/// children whose `is_format_disabled` attribute is set.
pub fn attr_nodes(root: &SyntaxNode) -> Vec<Value> {
    let attrs = AttrStore::new(root);
    let mut out = vec![];
    fn rec(n: &SyntaxNode, attrs: &AttrStore, out: &mut Vec<Value>) {
        if n.children().len() == 0 {
            return;
        }
        if n.children().any(|c| is_comment(c.kind())) {
            let kids: Vec<&str> = n
                .children()
                .map(|c| match c.kind() {
                    k if is_comment(k) => {
                        if c.text().contains("@typstyle off") {
                            "doff"
                        } else {
                            "cmt"
                        }
                    }
                    SyntaxKind::Space => "sp",
                    SyntaxKind::Hash => "hash",
                    _ => "node",
                })
                .collect();
            let marked: Vec<usize> =
                n.children().enumerate().filter(|(_, c)| attrs.is_format_disabled(c)).map(|(i, _)| i + 1).collect();
            out.push(json!({"k": kind_name(n.kind()), "kids": kids, "marked": marked, "commented": attrs.has_comment(n)}));
        }
        for c in n.children() {
            rec(c, attrs, out);
        }
    }
    rec(root, &attrs, &mut out);
    out
}

/// Continuation lines (lines 2..n, right-trimmed) of every multi-line node that `@typstyle off` disables in the
/// given (input) tree: these lines are copied verbatim into the output, indentation included.
pub fn disabled_continuation_lines(root: &SyntaxNode) -> std::collections::BTreeSet<String> {
    let attrs = AttrStore::new(root);
    let mut out = std::collections::BTreeSet::new();
    fn rec(n: &SyntaxNode, attrs: &AttrStore, out: &mut std::collections::BTreeSet<String>) {
        let body_disabled = n
            .cast::<ast::CodeBlock>()
            .is_some_and(|cb| attrs.is_format_disabled(cb.body().to_untyped()));
        if (attrs.is_format_disabled(n) && !is_comment(n.kind())) || body_disabled {
            let t = node_text(n);
            let ls: Vec<&str> = t.split('\n').collect();
            for (k, l) in ls.iter().enumerate().skip(1) {
                out.insert(l.trim_end().to_string());
                if k + 1 == ls.len() && !l.trim().is_empty() {
                    // the last line of the node may be followed by more text on the same output line
                    out.insert(format!("\u{1}{}", l));
                }
            }
        }
        for c in n.children() {
            rec(c, attrs, out);
        }
    }
    rec(root, &attrs, &mut out);
    out
}

/// Like `lines`, plus `cp`: the line equals a continuation line of a disabled node of the input.
pub fn lines_with_copied(text: &str, copied: &std::collections::BTreeSet<String>) -> Vec<Value> {
    text.split('\n')
        .map(|l| {
            let ind = l.bytes().take_while(|b| *b == b' ').count();
            let last = l.chars().last().map(|c| c as u32).unwrap_or(0);
            json!({"n": l.len(), "ind": ind, "last": last, "cp": is_copied(l, copied)})
        })
        .collect()
}

/// The output line is a verbatim continuation line of a disabled input node (exactly, or — for the node's last
/// line — as a prefix).
pub fn is_copied(l: &str, copied: &std::collections::BTreeSet<String>) -> bool {
    !l.is_empty()
        && (copied.contains(l.trim_end())
            || copied.iter().any(|p| p.strip_prefix('\u{1}').is_some_and(|p| l.starts_with(p))))
}
