//! Projections of what the real code did into JSON for the TLA+ trace specifications.
//!
//! Everything here *copies* (selects, splits, counts with Typst's own `is_newline`); no
//! function in this module compares an input with an output or judges anything.  All
//! judgement is in /verif/spec/*.tla and is evaluated by TLC.

use serde_json::{json, Map, Value};
use typst_syntax::ast::AstNode;
use typst_syntax::{ast, is_newline, LinkedNode, Source, SyntaxKind, SyntaxNode};
use typstyle_core::AttrStore;

pub fn kind_name(k: SyntaxKind) -> String {
    format!("{:?}", k)
}

/// Number of line breaks the way Typst's lexer counts them (CRLF is one).
pub fn count_newlines(s: &str) -> usize {
    let mut n = 0;
    let mut it = s.chars().peekable();
    while let Some(c) = it.next() {
        if is_newline(c) {
            if c == '\r' && it.peek() == Some(&'\n') {
                it.next();
            }
            n += 1;
        }
    }
    n
}

pub fn is_inner(node: &SyntaxNode) -> bool {
    node.children().len() > 0 || node.text().is_empty()
}

fn is_comment(k: SyntaxKind) -> bool {
    matches!(k, SyntaxKind::LineComment | SyntaxKind::BlockComment)
}

fn raw_info(node: &SyntaxNode) -> Value {
    let raw: ast::Raw = node.cast().expect("raw");
    let lines: Vec<Value> = raw
        .lines()
        .map(|t| Value::String(t.get().to_string()))
        .collect();
    let lang = raw.lang().map(|l| l.get().to_string()).unwrap_or_default();
    let fence = node
        .children()
        .next()
        .map(|d| d.text().len())
        .unwrap_or(0);
    json!({"lines": lines, "lang": lang, "block": raw.block(), "fence": fence})
}

fn text_words(t: &str) -> (Vec<Value>, bool, bool) {
    // Lossless tokenisation at U+0020: "a b" -> [a, b]; leading / trailing blank flagged.
    let parts: Vec<&str> = t.split(' ').collect();
    let lead = parts.first().map(|p| p.is_empty()).unwrap_or(false) && parts.len() > 1;
    let trail = parts.last().map(|p| p.is_empty()).unwrap_or(false) && parts.len() > 1;
    let ws: Vec<Value> = parts
        .iter()
        .filter(|p| !p.is_empty())
        .map(|p| Value::String(p.to_string()))
        .collect();
    (ws, lead, trail)
}

/// The concrete syntax tree, verbatim.
pub fn tree(node: &SyntaxNode) -> Value {
    let k = node.kind();
    if k == SyntaxKind::Raw {
        let info = raw_info(node);
        return json!({"k": "Raw", "inner": false, "t": "", "blk": info["block"], "lang": info["lang"]});
    }
    if !is_inner(node) {
        let t = node.text().as_str();
        return match k {
            SyntaxKind::Space | SyntaxKind::Parbreak => {
                json!({"k": kind_name(k), "inner": false, "t": "", "nl": count_newlines(t)})
            }
            SyntaxKind::Text => {
                let (ws, lead, trail) = text_words(t);
                json!({"k": "Text", "inner": false, "t": t, "ws": ws, "lead": lead, "trail": trail})
            }
            _ => json!({"k": kind_name(k), "inner": false, "t": t}),
        };
    }
    let c: Vec<Value> = node.children().map(tree).collect();
    json!({"k": kind_name(k), "inner": true, "c": c})
}

fn split_lf(t: &str) -> Vec<Value> {
    t.split('\n').map(|s| Value::String(s.to_string())).collect()
}

/// Flat views: `lv` pre-order leaf stream, `mk` children of every Markup node, `mt`
/// children of every Math / MathDelimited / Equation node.
pub struct Flat {
    pub lv: Vec<Value>,
    pub mk: Vec<Value>,
    pub mt: Vec<Value>,
}

impl Flat {
    pub fn to_value(self) -> Value {
        json!({"lv": self.lv, "mk": self.mk, "mt": self.mt})
    }
}

pub fn flat(root: &SyntaxNode) -> Flat {
    let mut f = Flat {
        lv: vec![],
        mk: vec![],
        mt: vec![],
    };
    walk(root, &mut f, false);
    f
}

fn leaf_entry(node: &SyntaxNode) -> Value {
    let k = node.kind();
    let t = node.text().as_str();
    let mut m = Map::new();
    m.insert("k".into(), Value::String(kind_name(k)));
    m.insert("t".into(), Value::String(t.to_string()));
    m.insert("nl".into(), json!(0));
    m.insert("nw".into(), json!(0));
    if is_comment(k) {
        m.insert("ls".into(), Value::Array(split_lf(t)));
    }
    if matches!(k, SyntaxKind::Space | SyntaxKind::Parbreak) {
        m.insert("nl".into(), json!(count_newlines(t)));
        m.insert("t".into(), Value::String(String::new()));
    }
    if k == SyntaxKind::Text {
        let (ws, _, _) = text_words(t);
        m.insert("nw".into(), json!(ws.len()));
        m.insert("ws".into(), Value::Array(ws));
    }
    if k == SyntaxKind::Str {
        m.insert("ls".into(), Value::Array(split_lf(t)));
    }
    Value::Object(m)
}

fn child_entry(node: &SyntaxNode, out: &mut Vec<Value>) {
    let k = node.kind();
    if k == SyntaxKind::Text {
        // Re-tokenise: the parser itself tokenises `We  use` and `We use` differently.
        let t = node.text().as_str();
        let mut first = true;
        for part in t.split(' ') {
            if !first {
                out.push(json!({"k": "Space", "t": "", "nl": 0, "in": true}));
            }
            first = false;
            if !part.is_empty() {
                out.push(json!({"k": "Word", "t": part, "nl": 0, "in": true}));
            }
        }
        return;
    }
    if matches!(k, SyntaxKind::Space | SyntaxKind::Parbreak) {
        out.push(json!({"k": kind_name(k), "t": "", "nl": count_newlines(node.text()), "in": false}));
        return;
    }
    if k == SyntaxKind::Raw || is_inner(node) {
        out.push(json!({"k": kind_name(k), "t": "", "nl": 0, "in": false}));
        return;
    }
    out.push(json!({"k": kind_name(k), "t": node.text().as_str(), "nl": 0, "in": false}));
}

fn walk(node: &SyntaxNode, f: &mut Flat, in_math: bool) {
    let k = node.kind();
    if k == SyntaxKind::Raw {
        f.lv.push(json!({"k": "Raw", "t": "", "nl": 0, "nw": 0, "raw": raw_info(node)}));
        return;
    }
    if !is_inner(node) {
        f.lv.push(leaf_entry(node));
        return;
    }
    if k == SyntaxKind::Markup {
        let mut cs = vec![];
        for c in node.children() {
            child_entry(c, &mut cs);
        }
        f.mk.push(Value::Array(cs));
    }
    let math_like = matches!(
        k,
        SyntaxKind::Math | SyntaxKind::MathDelimited | SyntaxKind::Equation
    );
    if math_like {
        let cs: Vec<Value> = node
            .children()
            .map(|c| {
                let ck = c.kind();
                let nl = if ck == SyntaxKind::Space {
                    count_newlines(c.text())
                } else {
                    0
                };
                json!({"k": kind_name(ck), "nl": nl})
            })
            .collect();
        f.mt.push(json!({"k": kind_name(k), "c": cs}));
    }
    let _ = in_math;
    for c in node.children() {
        walk(c, f, in_math || math_like);
    }
}

/// Lines of a text: lossless split at LF; per line its byte length, the number of leading
/// U+0020, the code point of its last character (0 for an empty line).
pub fn lines(text: &str) -> Vec<Value> {
    text.split('\n')
        .map(|l| {
            let ind = l.bytes().take_while(|b| *b == b' ').count();
            let last = l.chars().last().map(|c| c as u32).unwrap_or(0);
            json!({"n": l.len(), "ind": ind, "last": last})
        })
        .collect()
}

/// Multi-line tokens / verbatim regions of a (re-parsed) text, as line intervals (1-based,
/// first line .. last line).  Used by the indentation relation to know which continuation
/// lines carry indentation copied from the source.
pub fn multiline_spans(src: &Source) -> Vec<Value> {
    let text = src.text();
    let mut starts = vec![0usize];
    for (i, b) in text.bytes().enumerate() {
        if b == b'\n' {
            starts.push(i + 1);
        }
    }
    let line_of = |off: usize| -> usize {
        match starts.binary_search(&off) {
            Ok(i) => i + 1,
            Err(i) => i,
        }
    };
    let attrs = AttrStore::new(src.root());
    let mut out = vec![];
    fn rec(
        n: LinkedNode,
        attrs: &AttrStore,
        line_of: &dyn Fn(usize) -> usize,
        out: &mut Vec<Value>,
    ) {
        let k = n.kind();
        let r = n.range();
        let (a, b) = (line_of(r.start), line_of(r.end.max(r.start)));
        let disabled = attrs.is_format_disabled(n.get()) && !is_comment(k);
        let body_disabled = k == SyntaxKind::CodeBlock
            && n.get()
                .cast::<ast::CodeBlock>()
                .is_some_and(|cb| attrs.is_format_disabled(cb.body().to_untyped()));
        let verbatim_raw = k == SyntaxKind::Raw;
        let tok = matches!(k, SyntaxKind::BlockComment | SyntaxKind::Str);
        if (disabled || body_disabled || verbatim_raw || tok) && b > a {
            let kind = if disabled || body_disabled {
                "Disabled".to_string()
            } else {
                kind_name(k)
            };
            out.push(json!({"k": kind, "a": a, "b": b}));
        }
        if disabled || body_disabled || verbatim_raw {
            return;
        }
        for c in n.children() {
            rec(c, attrs, line_of, out);
        }
    }
    rec(LinkedNode::new(src.root()), &attrs, &line_of, &mut out);
    out
}
