//! Drivers for C05 (totality), C13 (range formatting), C17 (determinism / schedules) and C18
//! (linear work).  As everywhere in the harness: drive the real code, project, judge nothing.

use std::{
    collections::{BTreeMap, BTreeSet},
    fs,
    io::{BufRead, BufWriter, Write},
    panic::{catch_unwind, AssertUnwindSafe},
    path::Path,
    process::{Command, Stdio},
    sync::{mpsc, Arc, Mutex},
    time::{Duration, Instant},
};

use rayon::prelude::*;
use serde_json::{json, Value};
use typst_syntax::{ast, LinkedNode, Source, SyntaxKind, SyntaxNode};
use typstyle_core::{format_with_width, Config, Typstyle};

use crate::{proj, universe::sha_hex, Cfg};

// ---------------------------------------------------------------------------------------------
// C05

pub const ALPHABET: [&str; 28] = [
    "#", "(", ")", "[", "]", "{", "}", "$", "\"", "`", "/", "*", "\\", "\n", "\r", " ", "a", "1", ",", ";", ":",
    ".", "=", "+", "-", "_", "@", "<",
];

fn hex(s: &str) -> String {
    s.bytes().map(|b| format!("{:02x}", b)).collect()
}

/// One call of the library with the phase hook installed: outcome, the phases seen, the parser's
/// verdict, and whether the convenience wrapper returned the input unchanged.
pub fn call_event(id: &str, text: &str, cfg: Cfg) -> Value {
    let phases: Arc<Mutex<Vec<&'static str>>> = Arc::new(Mutex::new(vec![]));
    let ierr = Source::detached(text).root().erroneous();
    let t0 = Instant::now();
    let r = catch_unwind(AssertUnwindSafe(|| {
        PHASES.with(|p| p.borrow_mut().clear());
        let r = Typstyle::new(cfg.to_config()).format_content(text);
        let seen = PHASES.with(|p| p.borrow().clone());
        (r, seen)
    }));
    let ms = t0.elapsed().as_millis() as u64;
    let _ = phases;
    let (outcome, seen, oerr, nonempty) = match r {
        Ok((Ok(out), seen)) => ("ok", seen, Source::detached(out.as_str()).root().erroneous(), !out.is_empty()),
        Ok((Err(_), seen)) => ("err", seen, false, true),
        Err(_) => ("panic", PHASES.with(|p| p.borrow().clone()), false, true),
    };
    // the width-only convenience entry point (what the wasm build exports)
    let wrap = catch_unwind(AssertUnwindSafe(|| format_with_width(text, cfg.w)));
    let (wrapper, wrapper_same) = match &wrap {
        Ok(s) => ("ok", s == text),
        Err(_) => ("panic", false),
    };
    json!({"ev": "call", "id": id, "sha": sha_hex(text), "w": cfg.w, "tab": cfg.tab, "bl": cfg.bl, "ro": cfg.ro,
           "outcome": outcome, "ierr": ierr, "oerr": oerr, "nonempty": nonempty, "phases": seen,
           "wrapper": wrapper, "wrapper_same": wrapper_same, "ms": ms, "len": text.len()})
}

thread_local! {
    static PHASES: std::cell::RefCell<Vec<&'static str>> = const { std::cell::RefCell::new(vec![]) };
}

pub fn install_phase_logger() {
    typstyle_core::verif::set_phase_hook(Some(Arc::new(|name| {
        PHASES.with(|p| p.borrow_mut().push(name));
    })));
}

fn strings_upto(n: usize) -> Vec<String> {
    let mut out = vec![String::new()];
    let mut frontier = vec![String::new()];
    for _ in 0..n {
        let mut next = vec![];
        for s in &frontier {
            for a in ALPHABET {
                next.push(format!("{s}{a}"));
            }
        }
        out.extend(next.iter().cloned());
        frontier = next;
    }
    out
}

/// Damage operators applied at hash-strided positions (U-mut).
fn mutations(id: &str, text: &str, stride: usize, seed: u64) -> Vec<(String, String)> {
    let mut out = vec![];
    let idx: Vec<usize> = text.char_indices().map(|x| x.0).chain(std::iter::once(text.len())).collect();
    let crit = ["(", ")", "[", "]", "{", "}", "$", "\"", "`", "/*", "*/", "//", "\\", "\n", "#", ",", ";", ":", "=", "_", "*"];
    for (k, &i) in idx.iter().enumerate() {
        if !crate::universe::pick(seed, &format!("{id}:{k}"), 1, stride as u64) {
            continue;
        }
        let next = idx.get(k + 1).copied().unwrap_or(text.len());
        // delete one char, duplicate one char, truncate, insert critical
        if i < text.len() {
            out.push((format!("mut:{id}:del{k}"), format!("{}{}", &text[..i], &text[next..])));
            out.push((format!("mut:{id}:dup{k}"), format!("{}{}{}", &text[..next], &text[i..next], &text[next..])));
        }
        out.push((format!("mut:{id}:cut{k}"), text[..i].to_string()));
        let c = crit[(k + seed as usize) % crit.len()];
        out.push((format!("mut:{id}:ins{k}"), format!("{}{}{}", &text[..i], c, &text[i..])));
    }
    out
}

pub struct CallOpts {
    pub maxlen: usize,
    pub len_extra_frac: (u64, u64),
    pub seed: u64,
    pub mut_stride: usize,
    pub nest_max: usize,
}

pub fn call_inputs(o: &CallOpts, vdir: &Path, fixroot: &Path) -> Vec<(String, String)> {
    let mut v: Vec<(String, String)> = vec![];
    for s in strings_upto(o.maxlen) {
        v.push((format!("str:{}", hex(&s)), s));
    }
    // one more length, sampled
    if o.len_extra_frac.0 > 0 {
        let base = strings_upto(o.maxlen);
        for s in base.iter().filter(|s| s.chars().count() == o.maxlen) {
            for a in ALPHABET {
                let t = format!("{s}{a}");
                let id = format!("str:{}", hex(&t));
                if crate::universe::pick(o.seed, &id, o.len_extra_frac.0, o.len_extra_frac.1) {
                    v.push((id, t));
                }
            }
        }
    }
    // damaged seeds and fixtures
    let defs = crate::universe::load_defs(&vdir.join("universe"));
    for s in &defs.seeds {
        for c in defs.ctxs.iter().filter(|c| c.mode == s.mode).take(2) {
            let full = c.tpl.replace("@@", &s.text);
            v.extend(mutations(&format!("{}:{}", s.id, c.name), &full, o.mut_stride, o.seed));
        }
    }
    for f in crate::universe::fixtures(fixroot, 3000) {
        v.extend(mutations(&f.id, &f.text, o.mut_stride * 8, o.seed));
    }
    // degenerate + unicode whitespace documents
    for (i, s) in ["", " ", "\n", "\r\n", "\u{a0}", "\u{3000}\n", "\u{2028}", "\u{feff}a", "a\u{0}b", "\t\t", "$vec( )$", "$ f( ) $",
                   "#f(\u{2029})", "/*", "*/", "#", "#(", "```", "`", "$", "$$", "\\", "\\u{", "= ", "- ", "+ ", "/ a", "/ a:", "<a>", "@a"]
        .iter()
        .enumerate()
    {
        v.push((format!("deg:{i}"), s.to_string()));
    }
    // U-num: extreme values of the one literal whose VALUE the formatter reads (the `columns:` argument of a table / grid call)
    for (i, n) in ["0", "1", "3", "99999999999", "9223372036854775807", "0x7fffffffffffffff", "1e3"].iter().enumerate() {
        for (j, f) in ["table", "grid"].iter().enumerate() {
            v.push((format!("num:{i}:{j}"), format!("#{f}(columns: {n}, [a], [b], [c])\n")));
        }
    }
    v.extend(nest_inputs(o.nest_max));
    v
}

/// U-nest: every construct nested in itself up to `max` levels (and beyond the parser's limit).
pub fn nest_families() -> Vec<(&'static str, &'static str, &'static str, &'static str, &'static str)> {
    // (name, document prefix, open, close, innermost)
    vec![
        ("call", "#", "f(", ")", "x"),
        ("array", "#", "(", ",)", "1"),
        ("dict", "#", "(a: ", ")", "1"),
        ("paren", "#", "(", ")", "1"),
        ("block", "#", "{", "}", "x"),
        ("content", "#", "[#", "]", "x"),
        ("content2", "#f", "[#f", "]", "[x]"),
        ("closure", "#let f = ", "x => ", "", "x"),
        ("cond", "#", "if a {", "} else {b}", "c"),
        ("binary", "#(", "(a + ", ") * b", "c"),
        ("unary", "#(", "-(", ")", "x"),
        ("dotcall", "#", "a.b(", ").c()", "x"),
        ("chain2", "#", "a.b.c(", ")", "1"),
        ("chain2long", "#", "configuration_registry.default_profile.with_overrides(", ")", "1"),
        ("mathrows", "$", "mat(", ", 2; 3, 4)", "1"),
        ("chainarg", "#", "a.b(c.d(", "))", "x"),
        ("mathdelim", "$", "(", ")", "x"),
        ("mathcall", "$", "vec(", ")", "x"),
        ("mathattach", "$", "a_(", ")", "x"),
        ("mathfrac", "$", "(1)/(", ")", "x"),
        ("strong", "", "*a _b ", "_*", "c"),
        ("list", "", "- ", "", "a"),
        ("table", "#", "table(columns: 1, ", ")", "[a]"),
        ("named", "#", "f(a: ", ")", "1"),
        ("spread", "#", "f(..", ")", "x"),
        ("letin", "#", "{ let x = ", "}", "1"),
        ("forloop", "#", "for x in y {", "}", "x"),
        // a chain outside continued code whose operand re-enters plain code / markup (the two alternate at every level)
        ("blockbin", "#", "{ 1 + ", " }", "0"),
        ("letblockbin", "#let v = ", "1 + {\nlet v = ", "\nv\n}", "1 + 0"),
        ("dotcnt", "#", "a.b().c()[#", "]", "x"),
        ("condbin", "#", "{ if a == ", " { b } }", "c"),
        ("mix1", "#", "f([#g(", ")])", "x"),
        ("mix2", "#", "(a: [$ vec(#(", ")) $])", "1"),
    ]
}

pub fn nest_doc(fam: &(&str, &str, &str, &str, &str), depth: usize) -> String {
    let (name, pre, open, close, inner) = *fam;
    if name == "list" {
        // nesting by indentation
        let mut s = String::new();
        for d in 0..depth {
            s.push_str(&" ".repeat(2 * d));
            s.push_str("- a\n");
        }
        return s;
    }
    let mut s = String::from(pre);
    for _ in 0..depth {
        s.push_str(open);
    }
    s.push_str(inner);
    for _ in 0..depth {
        s.push_str(close);
    }
    if pre.starts_with('$') {
        s.push('$');
    }
    if pre.ends_with('(') {
        s.push(')');
    }
    s.push('\n');
    s
}

pub fn nest_depths(max: usize) -> Vec<usize> {
    let mut v: Vec<usize> = (1..=16.min(max)).collect();
    let mut d = 20;
    while d <= max {
        v.push(d);
        d += 4;
    }
    v
}

fn nest_inputs(max: usize) -> Vec<(String, String)> {
    let mut v = vec![];
    for fam in nest_families() {
        for d in nest_depths(max) {
            v.push((format!("nest:{}:{}", fam.0, d), nest_doc(&fam, d)));
        }
    }
    v
}

/// Worker mode: read `id \t hex(text)` lines from stdin, write one `call` event per config.
pub fn calls_worker(cfgs: &[Cfg]) {
    install_phase_logger();
    let stdin = std::io::stdin();
    let stdout = std::io::stdout();
    let mut out = BufWriter::new(stdout.lock());
    for line in stdin.lock().lines() {
        let line = line.unwrap();
        let Some((id, hx)) = line.split_once('\t') else { continue };
        let bytes: Vec<u8> = (0..hx.len() / 2).map(|i| u8::from_str_radix(&hx[2 * i..2 * i + 2], 16).unwrap()).collect();
        let text = String::from_utf8(bytes).unwrap();
        // announce first, so that the parent knows which input killed a worker
        writeln!(out, "BEGIN\t{id}").unwrap();
        out.flush().unwrap();
        for &cfg in cfgs {
            writeln!(out, "{}", call_event(id, &text, cfg)).unwrap();
        }
        out.flush().unwrap();
    }
}

fn run_batch(exe: &Path, cfg_arg: &str, batch: &[(String, String)], timeout: Duration) -> (Vec<String>, Option<(String, &'static str)>) {
    // returns events and, if the worker died or hung, the id it was working on and why
    let mut child = Command::new(exe)
        .args(["calls-worker", "--cfgs", cfg_arg])
        .stdin(Stdio::piped())
        .stdout(Stdio::piped())
        .stderr(Stdio::null())
        .spawn()
        .expect("spawn worker");
    let mut stdin = child.stdin.take().unwrap();
    let payload: String = batch.iter().map(|(id, t)| format!("{}\t{}\n", id, hex(t))).collect();
    let writer = std::thread::spawn(move || {
        let _ = stdin.write_all(payload.as_bytes());
    });
    let stdout = child.stdout.take().unwrap();
    let (tx, rx) = mpsc::channel::<String>();
    let reader = std::thread::spawn(move || {
        for l in std::io::BufReader::new(stdout).lines().map_while(Result::ok) {
            if tx.send(l).is_err() {
                break;
            }
        }
    });
    let mut events = vec![];
    let mut current: Option<String> = None;
    let mut done_ids = 0usize;
    let deadline_per = timeout;
    let mut last = Instant::now();
    let mut fail = None;
    loop {
        match rx.recv_timeout(Duration::from_millis(200)) {
            Ok(l) => {
                last = Instant::now();
                if let Some(id) = l.strip_prefix("BEGIN\t") {
                    current = Some(id.to_string());
                    done_ids += 1;
                } else {
                    events.push(l);
                }
            }
            Err(mpsc::RecvTimeoutError::Timeout) => {
                if last.elapsed() > deadline_per {
                    let _ = child.kill();
                    fail = Some((current.clone().unwrap_or_default(), "timeout"));
                    break;
                }
            }
            Err(mpsc::RecvTimeoutError::Disconnected) => break,
        }
    }
    let st = child.wait().ok();
    let _ = writer.join();
    let _ = reader.join();
    if fail.is_none() && done_ids < batch.len() || st.is_some_and(|s| !s.success()) && fail.is_none() {
        if done_ids <= batch.len() && (done_ids < batch.len() || st.is_some_and(|s| !s.success())) {
            fail = Some((current.unwrap_or_default(), "abort"));
        }
    }
    (events, fail)
}

pub fn record_calls(inputs: Vec<(String, String)>, cfgs: &[Cfg], cfg_arg: &str, outdir: &Path, shards: usize) -> Value {
    fs::create_dir_all(outdir).unwrap();
    let exe = std::env::current_exe().unwrap();
    // de-duplicate
    let mut seen = BTreeSet::new();
    let mut inputs: Vec<(String, String)> = inputs.into_iter().filter(|(_, t)| seen.insert(t.clone())).collect();
    // nest families last, each family contiguous and by increasing size (so that the guard above can work)
    inputs.sort_by_key(|(id, t)| (id.starts_with("nest:"), if id.starts_with("nest:") { id.rsplitn(2, ':').nth(1).unwrap_or("").to_string() } else { String::new() }, if id.starts_with("nest:") { t.len() } else { 0 }));
    let batches: Vec<&[(String, String)]> = inputs.chunks(1500).collect();
    let results: Vec<Vec<String>> = batches
        .par_iter()
        .map(|batch| {
            let mut evs = vec![];
            let mut rest: Vec<(String, String)> = batch.to_vec();
            loop {
                let (e, fail) = run_batch(&exe, cfg_arg, &rest, Duration::from_secs(10));
                // keep only events of inputs that completed all configs
                let mut per: BTreeMap<String, Vec<String>> = BTreeMap::new();
                for l in e {
                    if let Ok(v) = serde_json::from_str::<Value>(&l) {
                        per.entry(v["id"].as_str().unwrap().to_string()).or_default().push(l);
                    }
                }
                match fail {
                    None => {
                        for (_, ls) in per {
                            evs.extend(ls);
                        }
                        break;
                    }
                    Some((id, why)) => {
                        let pos = rest.iter().position(|x| x.0 == id).unwrap_or(0);
                        for (k, ls) in per {
                            if k != id {
                                evs.extend(ls);
                            }
                        }
                        let t = &rest[pos].1;
                        evs.push(json!({"ev": "call", "id": id, "sha": sha_hex(t), "w": cfgs[0].w, "tab": cfgs[0].tab, "bl": 2, "ro": false,
                                        "outcome": why, "ierr": Source::detached(t.as_str()).root().erroneous(), "oerr": false, "nonempty": true,
                                        "phases": [], "wrapper": why, "wrapper_same": false, "ms": 0, "len": t.len()}).to_string());
                        rest = rest[pos + 1..].to_vec();
                        if let Some(fam) = id.strip_prefix("nest:").and_then(|x| x.rsplit_once(':')).map(|x| format!("nest:{}:", x.0)) {
                            // resource guard: do not wait for the time-out again on deeper members of the same family
                            rest.retain(|x| !x.0.starts_with(&fam));
                        }
                        if rest.is_empty() {
                            break;
                        }
                    }
                }
            }
            evs
        })
        .collect();
    let mut writers: Vec<BufWriter<fs::File>> = (0..shards)
        .map(|i| BufWriter::new(fs::File::create(outdir.join(format!("shard-{:02}.ndjson", i))).unwrap()))
        .collect();
    let mut inputs_w = BufWriter::new(fs::File::create(outdir.join("inputs.ndjson")).unwrap());
    for (id, t) in &inputs {
        writeln!(inputs_w, "{}", json!({"id": id, "sha": sha_hex(t), "text": t})).unwrap();
    }
    let (mut n, mut ok, mut err, mut bad) = (0u64, 0u64, 0u64, 0u64);
    let mut samples = vec![];
    for (i, evs) in results.into_iter().enumerate() {
        for l in evs {
            let v: Value = serde_json::from_str(&l).unwrap();
            match v["outcome"].as_str().unwrap() {
                "ok" => {
                    ok += 1;
                    if samples.len() < 4 {
                        samples.push(json!({"id": v["id"], "outcome": "ok"}));
                    }
                }
                "err" => err += 1,
                _ => bad += 1,
            }
            writeln!(writers[i % shards], "{}", l).unwrap();
            n += 1;
        }
    }
    for w in writers.iter_mut() {
        w.flush().unwrap();
    }
    inputs_w.flush().unwrap();
    let s = json!({"universe": "calls", "elements": inputs.len(), "events": n, "format_calls": n, "nontrivial_events": ok,
                   "universe_stats": {"ok": ok, "err": err, "panic_abort_timeout": bad}, "samples": samples});
    fs::write(outdir.join("summary.json"), s.to_string()).unwrap();
    s
}

// ---------------------------------------------------------------------------------------------
// C18

fn count_nodes(n: &SyntaxNode) -> (u64, u64) {
    // (nodes, depth)
    let mut nodes = 1;
    let mut depth = 0;
    for c in n.children() {
        let (cn, cd) = count_nodes(c);
        nodes += cn;
        depth = depth.max(cd);
    }
    (nodes, depth + 1)
}

pub fn visit_event(id: &str, text: &str, cfg: Cfg) -> Option<Value> {
    let src = Source::detached(text);
    if src.root().erroneous() {
        return None;
    }
    let (nodes, depth) = count_nodes(src.root());
    typstyle_core::verif::start_visit_log();
    let t0 = Instant::now();
    let r = catch_unwind(AssertUnwindSafe(|| Typstyle::new(cfg.to_config()).format_source(&src)));
    let us = t0.elapsed().as_micros() as u64;
    let log = typstyle_core::verif::take_visit_log();
    // conversions per syntax node (span), whatever the entry point
    let mut per: BTreeMap<u64, u64> = BTreeMap::new();
    for (_e, s) in &log {
        *per.entry(*s).or_insert(0) += 1;
    }
    let mut hist: BTreeMap<u64, u64> = BTreeMap::new();
    for c in per.values() {
        *hist.entry(*c).or_insert(0) += 1;
    }
    let hist: Vec<Value> = hist.into_iter().map(|(c, n)| json!({"count": c, "spans": n})).collect();
    Some(json!({"ev": "visit", "id": id, "sha": sha_hex(text), "w": cfg.w, "tab": cfg.tab, "bl": 2, "ro": false,
                "outcome": if matches!(r, Ok(Ok(_))) { "ok" } else { "fail" },
                "bytes": text.len(), "nodes": nodes, "depth": depth, "visits": log.len(), "hist": hist, "us": us}))
}

pub fn record_visits(max_depth: usize, widths: &[usize], outdir: &Path, shards: usize, extra: Vec<(String, String)>) -> Value {
    fs::create_dir_all(outdir).unwrap();
    let mut inputs: Vec<(String, String)> = vec![];
    let fams = nest_families();
    for fam in &fams {
        for d in nest_depths(max_depth) {
            inputs.push((format!("nest:{}:{}", fam.0, d), nest_doc(fam, d)));
        }
    }
    // ordered pairs alternating (AB)*
    for (i, a) in fams.iter().enumerate() {
        for b in fams.iter().skip(i + 1) {
            if a.1 != b.1 || a.0 == "list" || b.0 == "list" {
                continue;
            }
            for d in [2usize, 4, 8, 12] {
                if d > max_depth {
                    continue;
                }
                let mut s = String::from(a.1);
                for k in 0..d {
                    s.push_str(if k % 2 == 0 { a.2 } else { b.2 });
                }
                s.push_str(a.4);
                for k in (0..d).rev() {
                    s.push_str(if k % 2 == 0 { a.3 } else { b.3 });
                }
                if a.1.starts_with('$') {
                    s.push('$');
                }
                if a.1.ends_with('(') {
                    s.push(')');
                }
                s.push('\n');
                inputs.push((format!("nest2:{}+{}:{}", a.0, b.0, d), s));
            }
        }
    }
    inputs.extend(extra);
    // group by family so that a family whose cost explodes is not nested any deeper (resource guard only: the
    // event that exceeded the bound is recorded and judged by TLC like every other)
    let mut groups: BTreeMap<String, Vec<(String, String)>> = BTreeMap::new();
    for (id, t) in &inputs {
        let fam = if id.starts_with("nest") { id.rsplitn(2, ':').nth(1).unwrap_or(id).to_string() } else { id.clone() };
        groups.entry(fam).or_default().push((id.clone(), t.clone()));
    }
    let groups: Vec<Vec<(String, String)>> = groups.into_values().collect();
    let evs: Vec<String> = groups
        .par_iter()
        .flat_map(|g| {
            let mut out = vec![];
            let mut g = g.clone();
            g.sort_by_key(|(_, t)| t.len());
            'fam: for (id, t) in &g {
                for &w in widths {
                    if let Some(v) = visit_event(id, t, Cfg { w, tab: 2, bl: 2, ro: false }) {
                        let blown = v["visits"].as_u64().unwrap_or(0) > 16 * v["nodes"].as_u64().unwrap_or(1);
                        out.push(v.to_string());
                        if blown {
                            break 'fam;
                        }
                    }
                }
            }
            out
        })
        .collect();
    let mut writers: Vec<BufWriter<fs::File>> = (0..shards)
        .map(|i| BufWriter::new(fs::File::create(outdir.join(format!("shard-{:02}.ndjson", i))).unwrap()))
        .collect();
    let mut inputs_w = BufWriter::new(fs::File::create(outdir.join("inputs.ndjson")).unwrap());
    for (id, t) in &inputs {
        writeln!(inputs_w, "{}", json!({"id": id, "sha": sha_hex(t), "text": t})).unwrap();
    }
    let mut samples = vec![];
    for (i, l) in evs.iter().enumerate() {
        writeln!(writers[i % shards], "{}", l).unwrap();
        if i % (evs.len() / 4 + 1) == 0 {
            let v: Value = serde_json::from_str(l).unwrap();
            samples.push(json!({"id": v["id"], "nodes": v["nodes"], "depth": v["depth"], "visits": v["visits"]}));
        }
    }
    for w in writers.iter_mut() {
        w.flush().unwrap();
    }
    inputs_w.flush().unwrap();
    let s = json!({"universe": "nest", "elements": inputs.len(), "events": evs.len(), "format_calls": evs.len(),
                   "nontrivial_events": evs.len(), "universe_stats": {}, "samples": samples});
    fs::write(outdir.join("summary.json"), s.to_string()).unwrap();
    s
}

// ---------------------------------------------------------------------------------------------
// C13

fn trim_independent(text: &str, s: usize, e: usize) -> (usize, usize) {
    // clamp to the text, then trim blanks on both sides (recomputed independently of the code)
    let e = e.min(text.len());
    let s = s.min(e);
    let sub = &text[s..e];
    let te = s + sub.trim_end().len();
    let ts = te - text[s..te].trim_start().len();
    (ts, te)
}

fn node_ranges(root: &SyntaxNode) -> (Vec<Value>, Vec<(usize, usize, bool)>) {
    // all ranges of Markup / Expr / Pattern nodes (the kinds range formatting may return), with
    // their erroneous flag
    let mut v = vec![];
    fn rec(n: LinkedNode, v: &mut Vec<(usize, usize, bool)>) {
        let g = n.get();
        if g.is::<ast::Markup>() || g.is::<ast::Expr>() || g.is::<ast::Pattern>() {
            v.push((n.range().start, n.range().end, g.erroneous()));
        }
        for c in n.children() {
            rec(c, v);
        }
    }
    rec(LinkedNode::new(root), &mut v);
    let mut set: BTreeSet<(usize, usize)> = BTreeSet::new();
    for (a, b, _) in &v {
        set.insert((*a, *b));
    }
    (set.into_iter().map(|(a, b)| json!([a, b])).collect(), v)
}

pub fn range_events(id: &str, text: &str, cfg: Cfg, with_trees: bool) -> (Vec<String>, u64) {
    let src = Source::detached(text);
    let ierr = src.root().erroneous();
    let (nr, nrv) = node_ranges(src.root());
    let bounds: Vec<usize> = text.char_indices().map(|x| x.0).chain(std::iter::once(text.len())).collect();
    let len = text.len();
    let mut reqs: Vec<(usize, usize)> = vec![];
    for (i, &s) in bounds.iter().enumerate() {
        for &e in &bounds[i..] {
            reqs.push((s, e));
        }
        for e in [len + 1, len + 7, 2 * len + 1] {
            reqs.push((s, e));
        }
    }
    let mut calls = 0u64;
    // group requests by result
    let mut groups: BTreeMap<String, (Value, Vec<Value>)> = BTreeMap::new();
    for (s, e) in reqs {
        calls += 1;
        let r = catch_unwind(AssertUnwindSafe(|| Typstyle::new(cfg.to_config()).format_source_range(&src, s..e)));
        let (ts, te) = trim_independent(text, s, e);
        let req = json!({"s": s, "e": e, "ts": ts, "te": te});
        let (key, head) = match r {
            Err(_) => ("panic".to_string(), json!({"outcome": "panic"})),
            Ok(Err(_)) => {
                // is there any error-free covering node of an allowed kind?
                let covered = nrv.iter().any(|(a, b, er)| *a <= ts && te <= *b && !*er);
                (format!("err:{covered}"), json!({"outcome": "err", "clean_cover_exists": covered}))
            }
            Ok(Ok((rng, out))) => {
                let key = format!("ok:{}:{}:{}", rng.start, rng.end, sha_hex(&out));
                if groups.contains_key(&key) {
                    (key, Value::Null)
                } else {
                    let spliced = format!("{}{}{}", &text[..rng.start], out, &text[rng.end..]);
                    let s2 = Source::detached(spliced.as_str());
                    let all_err = {
                        let at: Vec<&(usize, usize, bool)> = nrv.iter().filter(|x| x.0 == rng.start && x.1 == rng.end).collect();
                        !at.is_empty() && at.iter().all(|x| x.2)
                    };
                    let mut h = json!({"outcome": "ok", "a": rng.start, "b": rng.end, "splice_err": s2.root().erroneous(),
                                       "node_all_err": all_err, "same": spliced == text});
                    if with_trees && !ierr {
                        h["in"] = proj::tree(src.root());
                        h["out"] = proj::tree(s2.root());
                    }
                    (key, h)
                }
            }
        };
        let g = groups.entry(key).or_insert_with(|| (head.clone(), vec![]));
        if g.0.is_null() {
            g.0 = head;
        }
        g.1.push(req);
    }
    let mut evs = vec![];
    for (_, (head, reqs)) in groups {
        let mut ev = head;
        ev["ev"] = json!("range");
        ev["id"] = json!(id);
        ev["sha"] = json!(sha_hex(text));
        ev["w"] = json!(cfg.w);
        ev["tab"] = json!(cfg.tab);
        ev["bl"] = json!(2);
        ev["ro"] = json!(false);
        ev["ierr"] = json!(ierr);
        ev["len"] = json!(len);
        ev["reqs"] = json!(reqs);
        ev["node_ranges"] = json!(nr);
        evs.push(ev.to_string());
    }
    (evs, calls)
}

// ---------------------------------------------------------------------------------------------
// C17

/// Free-running and scheduled histories of format calls.  Every call logs
/// {thread, seq, doc, cfg, sha_out}; `seq` is a global sequence number taken when the call ends.
pub fn record_histories(docs: &[(String, String)], cfgs: &[Cfg], outdir: &Path, threads: usize, rounds: usize, seed: u64) -> Value {
    fs::create_dir_all(outdir).unwrap();
    let seq = Arc::new(std::sync::atomic::AtomicU64::new(0));
    let mut events: Vec<Value> = vec![];
    // (a) sequential reference order A;B;A;...
    for round in 0..2 {
        for (d, (id, t)) in docs.iter().enumerate() {
            for (c, cfg) in cfgs.iter().enumerate() {
                let out = crate::format_once(t, *cfg);
                let n = seq.fetch_add(1, std::sync::atomic::Ordering::SeqCst);
                events.push(json!({"ev": "hist", "mode": "seq", "thread": 0, "seq": n, "doc": d, "cfgid": c, "id": id,
                                   "round": round, "res": outcome_sha(&out)}));
            }
        }
    }
    // (b) free-running threads, each formatting documents in a thread-specific order
    let docs_a = Arc::new(docs.to_vec());
    let cfgs_a = Arc::new(cfgs.to_vec());
    let mut hs = vec![];
    for th in 0..threads {
        let docs = docs_a.clone();
        let cfgs = cfgs_a.clone();
        let seq = seq.clone();
        hs.push(std::thread::Builder::new().stack_size(16 << 20).spawn(move || {
            let mut evs = vec![];
            let mut x = seed.wrapping_mul(6364136223846793005).wrapping_add(th as u64 * 1442695040888963407 + 1);
            for _ in 0..rounds {
                x = x.wrapping_mul(6364136223846793005).wrapping_add(1442695040888963407);
                let d = (x >> 33) as usize % docs.len();
                let c = (x >> 17) as usize % cfgs.len();
                let out = crate::format_once(&docs[d].1, cfgs[c]);
                let n = seq.fetch_add(1, std::sync::atomic::Ordering::SeqCst);
                evs.push(json!({"ev": "hist", "mode": "free", "thread": th + 1, "seq": n, "doc": d, "cfgid": c, "id": docs[d].0,
                                "round": 0, "res": outcome_sha(&out)}));
            }
            evs
        }).unwrap());
    }
    for h in hs {
        events.extend(h.join().unwrap());
    }
    events.sort_by_key(|e| e["seq"].as_u64().unwrap());
    let mut w = BufWriter::new(fs::File::create(outdir.join("shard-00.ndjson")).unwrap());
    for e in &events {
        writeln!(w, "{}", e).unwrap();
    }
    w.flush().unwrap();
    let s = json!({"universe": "hist", "elements": docs.len(), "events": events.len(), "format_calls": events.len(),
                   "nontrivial_events": events.len(), "universe_stats": {}, "samples": [events.first()]});
    fs::write(outdir.join("summary.json"), s.to_string()).unwrap();
    s
}

pub fn outcome_sha(o: &crate::Outcome) -> String {
    match o {
        crate::Outcome::Ok(s) => sha_hex(s),
        crate::Outcome::Err => "err".into(),
        crate::Outcome::Panic(_) => "panic".into(),
    }
}

/// Schedule replay: `schedule` is a sequence of thread indices; thread i's call advances one phase
/// each time i appears.  Threads block at the phase hook until released by the controller.
pub fn replay_schedule(calls: &[(String, Cfg)], schedule: &[usize]) -> Vec<String> {
    use std::sync::Condvar;
    let n = calls.len();
    struct Gate {
        permits: Vec<u64>,
        arrived: Vec<u64>,
        done: Vec<bool>,
    }
    let gate = Arc::new((Mutex::new(Gate { permits: vec![0; n], arrived: vec![0; n], done: vec![false; n] }), Condvar::new()));
    thread_local! { static ME: std::cell::Cell<usize> = const { std::cell::Cell::new(usize::MAX) }; }
    let g2 = gate.clone();
    typstyle_core::verif::set_phase_hook(Some(Arc::new(move |_name| {
        let me = ME.with(|m| m.get());
        if me == usize::MAX {
            return;
        }
        let (m, cv) = &*g2;
        let mut g = m.lock().unwrap();
        g.arrived[me] += 1;
        cv.notify_all();
        while g.permits[me] < g.arrived[me] {
            g = cv.wait(g).unwrap();
        }
    })));
    let mut hs = vec![];
    for (i, (text, cfg)) in calls.iter().cloned().enumerate() {
        let gate = gate.clone();
        hs.push(std::thread::Builder::new().stack_size(16 << 20).spawn(move || {
            ME.with(|m| m.set(i));
            let out = crate::format_once(&text, cfg);
            let (m, cv) = &*gate;
            let mut g = m.lock().unwrap();
            g.done[i] = true;
            cv.notify_all();
            outcome_sha(&out)
        }).unwrap());
    }
    // controller: release one phase of thread t per schedule entry, waiting until that thread has
    // arrived at its next gate (or finished)
    {
        let (m, cv) = &*gate;
        for &t in schedule {
            let mut g = m.lock().unwrap();
            // wait until t is blocked at a gate it has no permit for, or done
            let deadline = Instant::now() + Duration::from_secs(20);
            while !(g.done[t] || g.arrived[t] > g.permits[t]) {
                let (gg, to) = cv.wait_timeout(g, Duration::from_millis(200)).unwrap();
                g = gg;
                if to.timed_out() && Instant::now() > deadline {
                    break;
                }
            }
            if !g.done[t] {
                g.permits[t] += 1;
                cv.notify_all();
            }
        }
        // release everything that is left
        let mut g = m.lock().unwrap();
        for p in g.permits.iter_mut() {
            *p = u64::MAX;
        }
        cv.notify_all();
    }
    let res: Vec<String> = hs.into_iter().map(|h| h.join().unwrap_or_else(|_| "panic".into())).collect();
    typstyle_core::verif::set_phase_hook(None);
    res
}

pub fn kind_is(n: &SyntaxNode, k: SyntaxKind) -> bool {
    n.kind() == k
}

#[allow(dead_code)]
pub fn default_config() -> Config {
    Config::default()
}
