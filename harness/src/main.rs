//! vt — the verification harness for typstyle.  It drives the real code and *projects* what it
//! observes into NDJSON; every judgement is a TLA+ formula evaluated by TLC (DESIGN.md §3).

mod cli;
mod docx;
mod extra;
mod proj;
mod universe;

use std::{
    collections::{BTreeMap, BTreeSet},
    fs,
    io::{BufWriter, Write},
    panic::{catch_unwind, AssertUnwindSafe},
    path::{Path, PathBuf},
};

use rayon::prelude::*;
use serde_json::{json, Value};
use typst_syntax::Source;
use typstyle_core::{Config, Typstyle};
use universe::{sha_hex, Elem};

#[derive(Clone, Copy, Debug, PartialEq, Eq, PartialOrd, Ord)]
pub struct Cfg {
    pub w: usize,
    pub tab: usize,
    pub bl: usize,
    pub ro: bool,
}

impl Cfg {
    pub fn to_config(self) -> Config {
        Config {
            tab_spaces: self.tab,
            max_width: self.w,
            blank_lines_upper_bound: self.bl,
            reorder_import_items: self.ro,
        }
    }
}

#[derive(Debug, Clone, PartialEq, Eq)]
pub enum Outcome {
    Ok(String),
    Err,
    Panic(String),
}

pub fn format_once(text: &str, cfg: Cfg) -> Outcome {
    let r = catch_unwind(AssertUnwindSafe(|| {
        Typstyle::new(cfg.to_config()).format_content(text)
    }));
    match r {
        Ok(Ok(s)) => Outcome::Ok(s),
        Ok(Err(_)) => Outcome::Err,
        Err(e) => {
            let msg = if let Some(s) = e.downcast_ref::<String>() {
                s.clone()
            } else if let Some(s) = e.downcast_ref::<&str>() {
                s.to_string()
            } else {
                "panic".to_string()
            };
            Outcome::Panic(msg)
        }
    }
}

struct Args {
    m: BTreeMap<String, String>,
    pos: Vec<String>,
}
impl Args {
    fn parse() -> Self {
        let mut m = BTreeMap::new();
        let mut pos = vec![];
        let mut it = std::env::args().skip(1).peekable();
        while let Some(a) = it.next() {
            if let Some(k) = a.strip_prefix("--") {
                let v = if it.peek().is_some_and(|n| !n.starts_with("--")) {
                    it.next().unwrap()
                } else {
                    "true".to_string()
                };
                m.insert(k.to_string(), v);
            } else {
                pos.push(a);
            }
        }
        Args { m, pos }
    }
    fn get(&self, k: &str, d: &str) -> String {
        self.m.get(k).cloned().unwrap_or_else(|| d.to_string())
    }
    fn num(&self, k: &str, d: u64) -> u64 {
        self.m.get(k).map(|v| v.parse().expect(k)).unwrap_or(d)
    }
    fn list(&self, k: &str) -> Vec<String> {
        self.m
            .get(k)
            .map(|v| {
                v.split(',')
                    .filter(|x| !x.is_empty())
                    .map(|x| x.to_string())
                    .collect()
            })
            .unwrap_or_default()
    }
    fn frac(&self, k: &str, d: (u64, u64)) -> (u64, u64) {
        match self.m.get(k) {
            None => d,
            Some(v) => {
                let (a, b) = v.split_once('/').expect("num/denom");
                (a.parse().unwrap(), b.parse().unwrap())
            }
        }
    }
}

fn widths_for(spec: &str, text: &str) -> Vec<usize> {
    if spec == "all" {
        let l = text.len().min(120);
        (0..=2 * l + 2).collect()
    } else {
        spec.split(',').map(|x| x.parse().expect("width")).collect()
    }
}

struct RecOpts {
    widths: String,
    tabs: Vec<usize>,
    bls: Vec<usize>,
    ros: Vec<bool>,
    parts: BTreeSet<String>,
    passes: bool,
}

/// Record all `fmt` events of one element: one event per distinct (output, tab, bl, ro).
fn record_elem(e: &Elem, o: &RecOpts) -> (Vec<String>, u64, u64) {
    let src_in = Source::detached(e.text.clone());
    let ierr = src_in.root().erroneous();
    let sha_in = sha_hex(&e.text);
    let mut events = vec![];
    let mut calls = 0u64;
    let mut nontrivial = 0u64;
    let tree_in = if o.parts.contains("tree") && !ierr {
        Some(proj::tree(src_in.root()))
    } else {
        None
    };
    let flat_in = if o.parts.contains("flat") && !ierr {
        Some(proj::flat(src_in.root()).to_value())
    } else {
        None
    };
    let want_fmt = o.passes || o.parts.iter().any(|p| matches!(p.as_str(), "tree" | "flat" | "lines" | "fmt"));
    for &tab in &o.tabs {
        if !want_fmt {
            break;
        }
        for &bl in &o.bls {
            for &ro in &o.ros {
                // group widths by outcome
                let mut groups: Vec<(Outcome, Vec<usize>)> = vec![];
                for w in widths_for(&o.widths, &e.text) {
                    calls += 1;
                    let r = format_once(&e.text, Cfg { w, tab, bl, ro });
                    if let Some(g) = groups.iter_mut().find(|g| g.0 == r) {
                        g.1.push(w);
                    } else {
                        groups.push((r, vec![w]));
                    }
                }
                for (r, ws) in groups {
                    let mut ev = serde_json::Map::new();
                    ev.insert("ev".into(), json!("fmt"));
                    ev.insert("id".into(), json!(e.id));
                    ev.insert("sha".into(), json!(sha_in));
                    ev.insert("tab".into(), json!(tab));
                    ev.insert("bl".into(), json!(bl));
                    ev.insert("ro".into(), json!(ro));
                    ev.insert("ws".into(), json!(ws));
                    ev.insert("ierr".into(), json!(ierr));
                    match r {
                        Outcome::Err => {
                            ev.insert("outcome".into(), json!("err"));
                        }
                        Outcome::Panic(m) => {
                            ev.insert("outcome".into(), json!("panic"));
                            ev.insert("msg".into(), json!(m));
                        }
                        Outcome::Ok(out) => {
                            ev.insert("outcome".into(), json!("ok"));
                            let src_out = Source::detached(out.clone());
                            let oerr = src_out.root().erroneous();
                            let same = out == e.text;
                            if !same {
                                nontrivial += 1;
                            }
                            ev.insert("oerr".into(), json!(oerr));
                            ev.insert("same".into(), json!(same));
                            ev.insert("s1".into(), json!(sha_hex(&out)));
                            if let Some(t) = &tree_in {
                                ev.insert("in".into(), t.clone());
                                ev.insert("out".into(), proj::tree(src_out.root()));
                            }
                            if let Some(f) = &flat_in {
                                ev.insert("pin".into(), f.clone());
                                ev.insert("pout".into(), proj::flat(src_out.root()).to_value());
                            }
                            if o.parts.contains("lines") {
                                let copied = proj::disabled_continuation_lines(src_in.root());
                                ev.insert("lines".into(), json!(proj::lines_with_copied(&out, &copied)));
                                ev.insert("ml".into(), json!(proj::multiline_spans(&src_out)));
                            }
                            if o.passes {
                                // feed the output back with the same configuration (one width
                                // of the group suffices only if all agree: run all of them)
                                let mut s2 = BTreeSet::new();
                                let mut s3 = BTreeSet::new();
                                for &w in &ws {
                                    calls += 1;
                                    match format_once(&out, Cfg { w, tab, bl, ro }) {
                                        Outcome::Ok(o2) => {
                                            if o2 != out {
                                                if let Outcome::Ok(o3) =
                                                    format_once(&o2, Cfg { w, tab, bl, ro })
                                                {
                                                    s3.insert(format!("{}:{}", w, sha_hex(&o3)));
                                                }
                                            }
                                            s2.insert(sha_hex(&o2));
                                        }
                                        Outcome::Err => {
                                            s2.insert("err".to_string());
                                        }
                                        Outcome::Panic(_) => {
                                            s2.insert("panic".to_string());
                                        }
                                    }
                                }
                                ev.insert("s2".into(), json!(s2.into_iter().collect::<Vec<_>>()));
                                ev.insert("s3".into(), json!(s3.into_iter().collect::<Vec<_>>()));
                            }
                        }
                    }
                    events.push(Value::Object(ev).to_string());
                }
            }
        }
    }
    if !ierr && o.parts.contains("imp") {
        let (evs, c, nt) = record_imp(e, o, &src_in, &sha_in);
        events.extend(evs);
        calls += c;
        nontrivial += nt;
    }
    if !ierr && o.parts.contains("off") {
        let (evs, c, nt) = record_off(e, o, &src_in, &sha_in);
        events.extend(evs);
        calls += c;
        nontrivial += nt;
    }
    if !ierr && o.parts.contains("attr") {
        let nodes = proj::attr_nodes(src_in.root());
        if !nodes.is_empty() {
            events.push(json!({"ev": "attr", "id": e.id, "sha": sha_in, "tab": 2, "bl": 2, "ro": false, "ws": [0],
                               "outcome": "ok", "nodes": nodes}).to_string());
        }
    }
    if !ierr && o.parts.contains("unit") {
        let (evs, c, nt) = record_unit(e, o, &sha_in);
        events.extend(evs);
        calls += c;
        nontrivial += nt;
    }
    (events, calls, nontrivial)
}

/// C19: the same input formatted with import reordering off and on, at every width.
fn record_imp(e: &Elem, o: &RecOpts, src_in: &Source, sha_in: &str) -> (Vec<String>, u64, u64) {
    let mut events = vec![];
    let (mut calls, mut nt) = (0u64, 0u64);
    let imp_in = proj::imports(src_in.root());
    if imp_in.is_empty() {
        return (events, calls, nt);
    }
    for &tab in &o.tabs {
        let mut groups: Vec<((Outcome, Outcome), Vec<usize>)> = vec![];
        for w in widths_for(&o.widths, &e.text) {
            calls += 2;
            let off = format_once(&e.text, Cfg { w, tab, bl: 2, ro: false });
            let on = format_once(&e.text, Cfg { w, tab, bl: 2, ro: true });
            let key = (off, on);
            if let Some(g) = groups.iter_mut().find(|g| g.0 == key) {
                g.1.push(w);
            } else {
                groups.push((key, vec![w]));
            }
        }
        for ((off, on), ws) in groups {
            let (Outcome::Ok(off), Outcome::Ok(on)) = (off, on) else {
                events.push(json!({"ev": "imp", "id": e.id, "sha": sha_in, "tab": tab, "bl": 2, "ro": true, "ws": ws,
                                   "outcome": "fail"}).to_string());
                continue;
            };
            if off != on {
                nt += 1;
            }
            let s_off = Source::detached(off.clone());
            let s_on = Source::detached(on.clone());
            events.push(json!({
                "ev": "imp", "id": e.id, "sha": sha_in, "tab": tab, "bl": 2, "ro": true, "ws": ws, "outcome": "ok",
                "oerr": s_off.root().erroneous() || s_on.root().erroneous(),
                "in": imp_in, "off": proj::imports(s_off.root()), "on": proj::imports(s_on.root()),
                "rest_off": proj::rest_without_import_items(s_off.root()),
                "rest_on": proj::rest_without_import_items(s_on.root()),
            }).to_string());
        }
    }
    (events, calls, nt)
}

/// C07: the directive targets of input and output.
fn record_off(e: &Elem, o: &RecOpts, src_in: &Source, sha_in: &str) -> (Vec<String>, u64, u64) {
    let mut events = vec![];
    let (mut calls, mut nt) = (0u64, 0u64);
    let din = proj::directives(src_in.root());
    if din.is_empty() {
        return (events, calls, nt);
    }
    for &tab in &o.tabs {
        let mut groups: Vec<(Outcome, Vec<usize>)> = vec![];
        for w in widths_for(&o.widths, &e.text) {
            calls += 1;
            let r = format_once(&e.text, Cfg { w, tab, bl: 2, ro: false });
            if let Some(g) = groups.iter_mut().find(|g| g.0 == r) {
                g.1.push(w);
            } else {
                groups.push((r, vec![w]));
            }
        }
        for (r, ws) in groups {
            let Outcome::Ok(out) = r else { continue };
            if out != e.text {
                nt += 1;
            }
            let s_out = Source::detached(out.clone());
            events.push(json!({
                "ev": "off", "id": e.id, "sha": sha_in, "tab": tab, "bl": 2, "ro": false, "ws": ws, "outcome": "ok",
                "oerr": s_out.root().erroneous(),
                "din": din, "dout": proj::directives(s_out.root()),
            }).to_string());
        }
    }
    (events, calls, nt)
}

/// C12 (R12b): outputs under pairs of indent units at a width where nothing needs wrapping.
fn record_unit(e: &Elem, o: &RecOpts, sha_in: &str) -> (Vec<String>, u64, u64) {
    let copied = proj::disabled_continuation_lines(Source::detached(e.text.as_str()).root());
    let mut events = vec![];
    let (mut calls, mut nt) = (0u64, 0u64);
    let units: Vec<usize> = o.tabs.clone();
    let mut outs: Vec<(usize, Vec<Value>)> = vec![];
    for &u in &units {
        calls += 1;
        if let Outcome::Ok(out) = format_once(&e.text, Cfg { w: 10000, tab: u, bl: 2, ro: false }) {
            if out != e.text {
                nt += 1;
            }
            let s = Source::detached(out.clone());
            outs.push((u, proj::unit_lines(&out, &s, &copied)));
        }
    }
    for i in 0..outs.len() {
        for j in i + 1..outs.len() {
            // identical line lists carry no information about scaling
            events.push(json!({
                "ev": "unit", "id": e.id, "sha": sha_in, "tab": outs[i].0, "bl": 2, "ro": false, "ws": [10000],
                "outcome": "ok", "u1": outs[i].0, "u2": outs[j].0, "l1": outs[i].1, "l2": outs[j].1,
            }).to_string());
        }
    }
    (events, calls, nt)
}

fn build_universe(a: &Args) -> (Vec<Elem>, BTreeMap<String, u64>) {
    let uni = a.get("universe", "fix");
    let seed = a.num("seed", 0);
    let vdir = PathBuf::from(a.get("verif", "/verif"));
    let fixroot = PathBuf::from(a.get("fixtures", "/repo/tests/fixtures"));
    let mut stats = BTreeMap::new();
    let mut elems = vec![];
    for u in uni.split('+') {
        match u {
            "fix" => elems.extend(universe::fixtures(&fixroot, a.num("max-bytes", 1 << 30) as usize)),
            "chunk" => {
                let all = universe::fixture_chunks(&fixroot, a.num("chunk-bytes", 400) as usize);
                let fr = a.frac("chunk-frac", (1, 1));
                elems.extend(all.into_iter().filter(|e| universe::pick(seed, &e.id, fr.0, fr.1)));
            }
            "gap" => {
                let defs = universe::load_defs(&vdir.join("universe"));
                let (es, st) = universe::gap(
                    &defs,
                    &universe::GapOpts {
                        seed,
                        single: a.frac("single", (1, 1)),
                        single_fixed: a.frac("single-fixed", (1, 1)),
                        pair: a.frac("pair", (0, 1)),
                        pair_fixed: a.frac("pair-fixed", (1, 1)),
                        seed_tags: a.list("seed-tags"),
                        trivia_tags: a.list("trivia-tags"),
                        ctx_filter: a.list("ctx"),
                        opt: a.get("opt", "false") == "true",
                    },
                );
                elems.extend(es);
                stats.extend(st);
            }
            "nl" => {
                // U-nl: every LF of a base element replaced by another Unicode newline
                let defs = universe::load_defs(&vdir.join("universe"));
                let (es, _) = universe::gap(
                    &defs,
                    &universe::GapOpts {
                        seed: 0x5eed_f1ed,
                        single: a.frac("nl-fixed", (1, 40)),
                        single_fixed: (1, 1),
                        pair: (0, 1),
                        pair_fixed: (1, 1),
                        seed_tags: a.list("seed-tags"),
                        trivia_tags: a.list("trivia-tags"),
                        ctx_filter: a.list("ctx"),
                        opt: a.get("opt", "false") == "true",
                    },
                );
                // the base slice is seed-independent (seed 0 below); the seed then samples within it
                let mut base = es;
                let fr = a.frac("nl-chunk", (1, 20));
                base.extend(
                    universe::fixture_chunks(&fixroot, 400)
                        .into_iter()
                        .filter(|e| universe::pick(0x5eed_f1ed, &e.id, fr.0, fr.1)),
                );
                let sample = a.frac("nl-sample", (1, 1));
                let styles: [(&str, &str); 8] = [
                    ("crlf", "\r\n"), ("cr", "\r"), ("vt", "\u{b}"), ("ff", "\u{c}"),
                    ("nel", "\u{85}"), ("ls", "\u{2028}"), ("ps", "\u{2029}"), ("mix", ""),
                ];
                let mixseq = ["\r\n", "\n", "\r", "\u{2028}"];
                for e in base {
                    if !e.text.contains('\n') {
                        continue;
                    }
                    for (name, rep) in styles {
                        let text = if name == "mix" {
                            let mut out = String::new();
                            let mut k = 0;
                            for ch in e.text.chars() {
                                if ch == '\n' {
                                    out.push_str(mixseq[k % mixseq.len()]);
                                    k += 1;
                                } else {
                                    out.push(ch);
                                }
                            }
                            out
                        } else {
                            e.text.replace('\n', rep)
                        };
                        let id = format!("nl:{}:{}", name, e.id);
                        if universe::pick(seed, &id, sample.0, sample.1) && universe::parses(&text) {
                            elems.push(Elem { id, text, tags: vec![] });
                        }
                    }
                }
            }
            "file" => {
                // NDJSON {id, text} produced elsewhere (TLC-generated behaviours etc.)
                let p = a.get("input", "");
                for line in fs::read_to_string(&p).expect("input").lines() {
                    let v: Value = serde_json::from_str(line).expect("json");
                    elems.push(Elem {
                        id: v["id"].as_str().unwrap().to_string(),
                        text: v["text"].as_str().unwrap().to_string(),
                        tags: vec![],
                    });
                }
            }
            other => panic!("unknown universe {other}"),
        }
    }
    // de-duplicate identical texts (first id wins)
    let mut seen = BTreeSet::new();
    elems.retain(|e| seen.insert(sha_hex(&e.text)));
    let take = a.num("take", u64::MAX) as usize;
    if elems.len() > take {
        // deterministic thinning by hash order
        let mut keyed: Vec<(String, Elem)> = elems
            .into_iter()
            .map(|e| (sha_hex(&format!("{}:{}", seed, e.id)), e))
            .collect();
        keyed.sort_by(|a, b| a.0.cmp(&b.0));
        keyed.truncate(take);
        elems = keyed.into_iter().map(|x| x.1).collect();
        elems.sort_by(|a, b| a.id.cmp(&b.id));
    }
    (elems, stats)
}

fn cmd_record(a: &Args) {
    let (elems, ustats) = build_universe(a);
    let outdir = PathBuf::from(a.get("outdir", "work/rec"));
    fs::create_dir_all(&outdir).unwrap();
    let shards = a.num("shards", 8) as usize;
    let o = RecOpts {
        widths: a.get("widths", "0,40,80,120"),
        tabs: a.list("tabs").iter().map(|x| x.parse().unwrap()).collect::<Vec<_>>(),
        bls: a.list("bls").iter().map(|x| x.parse().unwrap()).collect::<Vec<_>>(),
        ros: a.list("ros").iter().map(|x| x == "1" || x == "true").collect::<Vec<_>>(),
        parts: a.get("parts", "tree,flat,lines").split(',').map(|x| x.to_string()).collect(),
        passes: a.get("passes", "true") == "true",
    };
    let o = RecOpts {
        tabs: if o.tabs.is_empty() { vec![2] } else { o.tabs },
        bls: if o.bls.is_empty() { vec![2] } else { o.bls },
        ros: if o.ros.is_empty() { vec![false] } else { o.ros },
        ..o
    };
    let mut writers: Vec<BufWriter<fs::File>> = (0..shards)
        .map(|i| BufWriter::new(fs::File::create(outdir.join(format!("shard-{:02}.ndjson", i))).unwrap()))
        .collect();
    let mut inputs = BufWriter::new(fs::File::create(outdir.join("inputs.ndjson")).unwrap());
    let (mut n_events, mut n_calls, mut n_nontrivial) = (0u64, 0u64, 0u64);
    let mut samples: Vec<Value> = vec![];
    for (ci, chunk) in elems.chunks(2000).enumerate() {
        let res: Vec<(Vec<String>, u64, u64)> = chunk.par_iter().map(|e| record_elem(e, &o)).collect();
        for (i, (evs, calls, nt)) in res.into_iter().enumerate() {
            let gi = ci * 2000 + i;
            let e = &chunk[i];
            writeln!(inputs, "{}", json!({"id": e.id, "sha": sha_hex(&e.text), "text": e.text})).unwrap();
            if samples.len() < 5 && nt > 0 {
                samples.push(json!({"id": e.id, "input": e.text.chars().take(200).collect::<String>()}));
            }
            n_calls += calls;
            n_nontrivial += nt;
            for ev in evs {
                n_events += 1;
                writeln!(writers[gi % shards], "{}", ev).unwrap();
            }
        }
    }
    for w in writers.iter_mut() {
        w.flush().unwrap();
    }
    inputs.flush().unwrap();
    let summary = json!({
        "universe": a.get("universe", "fix"),
        "elements": elems.len(),
        "events": n_events,
        "format_calls": n_calls,
        "nontrivial_events": n_nontrivial,
        "universe_stats": ustats,
        "samples": samples,
    });
    fs::write(outdir.join("summary.json"), serde_json::to_string_pretty(&summary).unwrap()).unwrap();
    println!("{}", summary);
}

fn cmd_seeds_check(a: &Args) {
    let vdir = PathBuf::from(a.get("verif", "/verif"));
    let defs = universe::load_defs(&vdir.join("universe"));
    let mut bad = 0;
    for s in &defs.seeds {
        let mut ok_ctx = 0;
        let mut bad_ctx = vec![];
        for c in defs.ctxs.iter().filter(|c| c.mode == s.mode) {
            let full = c.tpl.replace("@@", &s.text);
            if universe::parses(&full) {
                ok_ctx += 1;
            } else {
                bad_ctx.push(c.name.clone());
            }
        }
        if ok_ctx == 0 {
            bad += 1;
            println!("SEED-ILLEGAL {} (no context parses)", s.id);
        } else if !bad_ctx.is_empty() && a.get("verbose", "false") == "true" {
            println!("seed {} illegal in {:?}", s.id, bad_ctx);
        }
    }
    println!("seeds={} bad={}", defs.seeds.len(), bad);
    if bad > 0 {
        std::process::exit(2);
    }
}

/// `vt fmt <file> [--w N --tab N]`: format one file with the library (used by replay).
fn cmd_fmt(a: &Args) {
    let p = Path::new(&a.pos[1]);
    let text = fs::read_to_string(p).expect("read");
    let cfg = Cfg {
        w: a.num("w", 80) as usize,
        tab: a.num("tab", 2) as usize,
        bl: a.num("bl", 2) as usize,
        ro: a.get("ro", "false") == "true",
    };
    match format_once(&text, cfg) {
        Outcome::Ok(s) => print!("{}", s),
        Outcome::Err => {
            eprintln!("syntax error");
            std::process::exit(3)
        }
        Outcome::Panic(m) => {
            eprintln!("panic: {m}");
            std::process::exit(4)
        }
    }
}

fn parse_cfgs(s: &str) -> Vec<Cfg> {
    s.split(',')
        .map(|c| {
            let p: Vec<&str> = c.split(':').collect();
            Cfg { w: p[0].parse().unwrap(), tab: p[1].parse().unwrap(), bl: p[2].parse().unwrap(), ro: p[3] == "1" }
        })
        .collect()
}

fn cmd_ranges(a: &Args) {
    let (elems, _) = build_universe(a);
    let outdir = PathBuf::from(a.get("outdir", "work/ranges"));
    fs::create_dir_all(&outdir).unwrap();
    let shards = a.num("shards", 8) as usize;
    let maxb = a.num("max-doc", 80) as usize;
    let cfgs = parse_cfgs(&a.get("cfgs", "40:2:2:0"));
    let with_trees = a.get("trees", "true") == "true";
    let elems: Vec<Elem> = elems.into_iter().filter(|e| e.text.len() <= maxb).collect();
    let res: Vec<(Vec<String>, u64)> = elems
        .par_iter()
        .map(|e| {
            let mut evs = vec![];
            let mut calls = 0;
            for &c in &cfgs {
                let (e2, n) = extra::range_events(&e.id, &e.text, c, with_trees);
                evs.extend(e2);
                calls += n;
            }
            (evs, calls)
        })
        .collect();
    let mut writers: Vec<BufWriter<fs::File>> = (0..shards)
        .map(|i| BufWriter::new(fs::File::create(outdir.join(format!("shard-{:02}.ndjson", i))).unwrap()))
        .collect();
    let mut inputs = BufWriter::new(fs::File::create(outdir.join("inputs.ndjson")).unwrap());
    let (mut n, mut calls, mut nt) = (0u64, 0u64, 0u64);
    let mut samples = vec![];
    for (i, (evs, c)) in res.into_iter().enumerate() {
        writeln!(inputs, "{}", json!({"id": elems[i].id, "sha": sha_hex(&elems[i].text), "text": elems[i].text})).unwrap();
        calls += c;
        for e in evs {
            if e.contains("\"outcome\":\"ok\"") && e.contains("\"same\":false") {
                nt += 1;
                if samples.len() < 4 {
                    samples.push(json!({"id": elems[i].id, "input": elems[i].text}));
                }
            }
            writeln!(writers[i % shards], "{}", e).unwrap();
            n += 1;
        }
    }
    for w in writers.iter_mut() {
        w.flush().unwrap();
    }
    inputs.flush().unwrap();
    let s = json!({"universe": a.get("universe", "gap"), "elements": elems.len(), "events": n, "format_calls": calls,
                   "nontrivial_events": nt, "universe_stats": {}, "samples": samples});
    fs::write(outdir.join("summary.json"), s.to_string()).unwrap();
    println!("{}", s);
}

fn cmd_hist(a: &Args) {
    let (elems, _) = build_universe(a);
    let mut docs: Vec<(String, String)> = elems.into_iter().take(a.num("docs", 24) as usize).map(|e| (e.id, e.text)).collect();
    if a.get("big", "true") == "true" {
        let fixroot = PathBuf::from(a.get("fixtures", "/repo/tests/fixtures"));
        let mut big: Vec<Elem> = universe::fixtures(&fixroot, 1 << 30).into_iter().filter(|e| e.text.len() > 30_000).collect();
        big.sort_by_key(|e| std::cmp::Reverse(e.text.len()));
        // interleave: small, BIG, small ... so that documents are formatted before and after a big one
        // a document larger than any fixture: the largest one three times over
        if let Some(e) = big.first() {
            let giant = format!("{0}\n\n{0}\n\n{0}", e.text);
            if universe::parses(&giant) {
                docs.insert(2.min(docs.len()), (format!("giant:{}", e.id), giant));
            }
        }
        for (i, e) in big.into_iter().take(3).enumerate() {
            let pos = (4 + 5 * i).min(docs.len());
            docs.insert(pos, (e.id, e.text));
        }
    }
    let cfgs = parse_cfgs(&a.get("cfgs", "80:2:2:0,20:4:2:0,0:2:2:1"));
    // document pairs with identical span numbering and different attributes
    let pairs: [(&str, &str); 4] = [
        ("#f(a,  b)\n/* @typstyle off */\n#g(a,  b)\n", "#f(a,  b)\n/* @typstyle on  */\n#g(a,  b)\n"),
        ("#f(a, b,\n  c)\n#let x = (1,2)\n", "#f(a,\n b,  c)\n#let x = (1,2)\n"),
        ("$ a + b $ text /* c */ #x.y.z(1)\n", "$ a + b $ text /* d */ #x.y.z(2)\n"),
        ("#import \"a.typ\": b, a\n- x\n  - y\n", "#import \"a.typ\": a, b\n- x\n  - z\n"),
    ];
    // documents whose layout involves an ORDER among several items with equal or nearly equal keys (an order taken from a
    // hash table differs from call to call and from process to process); formatted under every configuration, reordering on
    for (i, t) in [
        "#import \"a.typ\": Table, table, Figure, figure, caption, B, b, A, a\n",
        "#import \"a.typ\": zeta, Alpha, alpha, m.b as Beta, beta, m.a, Gamma as g, gamma\n",
        "#import \"a.typ\": (\n  d, D, c, C,\n  b, B, a, A,\n)\n#import \"b.typ\": x.y, X.y as Y, y as yy, YY\n",
        "#let f(c: 3, C: 4, b: 2, B: 5, a: 1, A: 6) = (c: c, C: C, b: b, B: B, a: a, A: A)\n#f(B: 1, b: 2, A: 3, a: 4)\n",
    ]
    .iter()
    .enumerate()
    {
        docs.push((format!("order:{i}"), t.to_string()));
    }
    let base = docs.len();
    for (i, (x, y)) in pairs.iter().enumerate() {
        docs.push((format!("pair:{i}:a"), x.to_string()));
        docs.push((format!("pair:{i}:b"), y.to_string()));
    }
    // the same pairs at a size no fixture reaches (a long-running server sees large documents too): two documents of
    // identical shape and span numbering, thousands of attributed nodes each
    if a.get("big", "true") == "true" {
        for (i, (x, y)) in pairs.iter().enumerate().take(2) {
            docs.push((format!("giantpair:{i}:a"), x.repeat(3000)));
            docs.push((format!("giantpair:{i}:b"), y.repeat(3000)));
        }
    }
    let outdir = PathBuf::from(a.get("outdir", "work/hist"));
    let r = extra::record_histories(&docs, &cfgs, &outdir, a.num("hthreads", 16) as usize,
                                    a.num("rounds", 200) as usize, a.num("seed", 0));
    let mut n_sched = 0;
    if let Some(sf) = a.m.get("sched") {
        use std::io::Write as _;
        let mut w = std::fs::OpenOptions::new().append(true).open(outdir.join("shard-00.ndjson")).unwrap();
        let mut seq = 1_000_000u64;
        for (k, line) in fs::read_to_string(sf).unwrap().lines().enumerate() {
            let sched: Vec<usize> = serde_json::from_str::<Vec<usize>>(line).unwrap().into_iter().map(|t| t - 1).collect();
            let nthreads = sched.iter().max().map(|m| m + 1).unwrap_or(0);
            let pi = k % pairs.len();
            let ci = k % cfgs.len();
            // concurrent calls differ in document AND configuration
            let calls: Vec<(String, Cfg)> =
                (0..nthreads).map(|t| (docs[base + 2 * pi + (t % 2)].1.clone(), cfgs[(ci + t) % cfgs.len()])).collect();
            let res = extra::replay_schedule(&calls, &sched);
            for (t, r) in res.iter().enumerate() {
                seq += 1;
                writeln!(w, "{}", json!({"ev": "hist", "mode": "sched", "thread": t + 1, "seq": seq, "doc": base + 2 * pi + (t % 2),
                                         "cfgid": (ci + t) % cfgs.len(), "id": docs[base + 2 * pi + (t % 2)].0, "round": k, "res": r})).unwrap();
            }
            n_sched += 1;
        }
    }
    println!("{} schedules={}", r, n_sched);
}

fn main() {
    std::panic::set_hook(Box::new(|_| {}));
    let a = Args::parse();
    let threads = a.num("threads", 12) as usize;
    rayon::ThreadPoolBuilder::new()
        .num_threads(threads)
        .stack_size(64 << 20)
        .build_global()
        .unwrap();
    match a.pos.first().map(|s| s.as_str()) {
        Some("record") => cmd_record(&a),
        Some("seeds-check") => cmd_seeds_check(&a),
        Some("fmt") => cmd_fmt(&a),
        Some("calls-worker") => extra::calls_worker(&parse_cfgs(&a.get("cfgs", "80:2:2:0"))),
        Some("calls") => {
            let vdir = PathBuf::from(a.get("verif", "/verif"));
            let fixroot = PathBuf::from(a.get("fixtures", "/repo/tests/fixtures"));
            let o = extra::CallOpts {
                maxlen: a.num("maxlen", 3) as usize,
                len_extra_frac: a.frac("extra", (1, 40)),
                seed: a.num("seed", 0),
                mut_stride: a.num("mut-stride", 7) as usize,
                nest_max: a.num("nest-max", 64) as usize,
            };
            let inputs = extra::call_inputs(&o, &vdir, &fixroot);
            let cfg_arg = a.get("cfgs", "80:2:2:0,0:0:2:0");
            let r = extra::record_calls(inputs, &parse_cfgs(&cfg_arg), &cfg_arg, Path::new(&a.get("outdir", "work/calls")), a.num("shards", 8) as usize);
            println!("{}", r);
        }
        Some("visits") => {
            let widths: Vec<usize> = a.get("widths", "0,40,120").split(',').map(|x| x.parse().unwrap()).collect();
            let mut extra_inputs = vec![];
            if a.get("with-fixtures", "true") == "true" {
                let fixroot = PathBuf::from(a.get("fixtures", "/repo/tests/fixtures"));
                for f in universe::fixtures(&fixroot, 1 << 30) {
                    extra_inputs.push((f.id, f.text));
                }
            }
            let r = extra::record_visits(a.num("max-depth", 48) as usize, &widths, Path::new(&a.get("outdir", "work/visits")), a.num("shards", 4) as usize, extra_inputs);
            println!("{}", r);
        }
        Some("outputs") => {
            // plain outputs of the real formatter for a file of {id, text} at widths 0..=maxw (drift accounting)
            let maxw = a.num("maxw", 24) as usize;
            let tab = a.num("tab", 2) as usize;
            let ro = a.get("ro", "false") == "true";
            let mut out = BufWriter::new(fs::File::create(a.get("out", "work/outputs.ndjson")).unwrap());
            for line in fs::read_to_string(a.get("input", "")).unwrap().lines() {
                let v: Value = serde_json::from_str(line).unwrap();
                let text = v["text"].as_str().unwrap();
                let perr = Source::detached(text).root().erroneous();
                let res: Vec<Value> = (0..=maxw)
                    .map(|w| match format_once(text, Cfg { w, tab, bl: 2, ro }) {
                        Outcome::Ok(s) => {
                            let mut ls: Vec<&str> = s.split('\n').collect();
                            if ls.last() == Some(&"") {
                                ls.pop();
                            }
                            json!(ls)
                        }
                        _ => json!(null),
                    })
                    .collect();
                writeln!(out, "{}", json!({"id": v["id"], "perr": perr, "real": res})).unwrap();
            }
            out.flush().unwrap();
        }
        Some("docs") => {
            // Doc IR export for the replay through DocRender.tla: fixtures and universe elements up to --max-bytes
            let (elems, _) = build_universe(&a);
            let widths: Vec<usize> = a.get("widths", "0,40,120").split(',').map(|x| x.parse().unwrap()).collect();
            let tab = a.num("tab", 2) as usize;
            let take = a.num("take", 400) as usize;
            let shards = a.num("shards", 6) as usize;
            let outdir = PathBuf::from(a.get("outdir", "work/docs"));
            fs::create_dir_all(&outdir).unwrap();
            let evs: Vec<Value> = elems.par_iter().take(take * 4).flat_map_iter(|e| docx::doc_events(&e.id, &e.text, tab, &widths)).collect();
            let evs: Vec<Value> =
                evs.into_iter().filter(|e| e["nodes"].as_u64().unwrap() <= a.num("max-nodes", 4000)).take(take * widths.len()).collect();
            let mut ws: Vec<BufWriter<fs::File>> =
                (0..shards).map(|i| BufWriter::new(fs::File::create(outdir.join(format!("shard-{i:02}.ndjson"))).unwrap())).collect();
            let (mut nodes, mut unknown) = (0u64, 0u64);
            for (i, e) in evs.iter().enumerate() {
                nodes += e["nodes"].as_u64().unwrap();
                unknown += e["unknown"].as_u64().unwrap();
                writeln!(ws[i % shards], "{}", e).unwrap();
            }
            for w in ws.iter_mut() {
                w.flush().unwrap();
            }
            let s = json!({"universe": a.get("universe", ""), "elements": evs.len(), "events": evs.len(), "format_calls": evs.len() * (widths.len() + 1),
                           "nontrivial_events": evs.len(), "universe_stats": {"doc_nodes": nodes, "unopened_closures": unknown}, "samples": []});
            fs::write(outdir.join("summary.json"), s.to_string()).unwrap();
            println!("{}", s);
        }
        Some("ranges") => cmd_ranges(&a),
        Some("hist") => cmd_hist(&a),
        Some("frontends") => {
            let (elems, _) = build_universe(&a);
            let mut sources: Vec<(String, String)> = elems.into_iter().map(|e| (e.id, e.text)).collect();
            // erroneous and unterminated inputs of several sizes (the CLI must hand them back unchanged)
            let long = "a".repeat(3000);
            for (i, t) in [
                "#let x = (".to_string(), "text $ a".to_string(), format!("#let\n{long}"), format!("#{{\n{long}"), long.clone(),
                format!("= T\n\n{long}"), String::new(), "no newline".to_string(), "#let   x=1".to_string(), "\n\n\n".to_string(),
                "#import \"a.typ\": zeta, alpha, m.b as c\n".to_string(), "a\r\nb\r\n".to_string(),
                // bytes a front-end might be tempted to normalise when it reads a FILE: byte order mark, NUL, final blanks
                "\u{feff}#let a  =  0\n".to_string(), "\u{feff}#let b = (\n".to_string(), "\u{feff}".to_string(),
                "a\u{0}b  \n".to_string(), "#let  c = 1\n\n\n\n".to_string(), "  \n#let  d = 1".to_string(),
            ]
            .iter()
            .enumerate()
            {
                sources.push((format!("fe-extra:{i}"), t.clone()));
            }
            let r = cli::run_frontends(
                &sources,
                &PathBuf::from(a.get("bin", cli::default_bin().to_str().unwrap())),
                Path::new(&a.get("work", "/verif/work/fe-scratch")),
                Path::new(&a.get("outdir", "work/fe")),
                a.num("shards", 8) as usize,
                a.num("seed", 0),
            );
            println!("{}", r);
        }
        Some("cli") => {
            let r = cli::run_scenarios(
                Path::new(&a.get("scen", "")),
                &PathBuf::from(a.get("bin", cli::default_bin().to_str().unwrap())),
                Path::new(&a.get("work", "/verif/work/cli-scratch")),
                Path::new(&a.get("outdir", "work/cli")),
                a.num("shards", 8) as usize,
                a.num("strace-every", 0) as usize,
            );
            println!("{}", r);
        }
        _ => {
            eprintln!("usage: vt record|seeds-check|fmt ...");
            std::process::exit(2);
        }
    }
}
