; ModuleID = 'autocfg_d81cce5721e377e5_0.2ca471794ef5732d-cgu.0'
source_filename = "autocfg_d81cce5721e377e5_0.2ca471794ef5732d-cgu.0"
target datalayout = "e-m:e-p270:32:32-p271:32:32-p272:64:64-i64:64-i128:128-f80:128-n8:16:32:64-S128"
target triple = "x86_64-unknown-linux-gnu"

!llvm.module.flags = !{!0, !1}
!llvm.ident = !{!2}

!0 = !{i32 8, !"PIC Level", i32 2}
!1 = !{i32 2, !"RtLibUseGOT", i32 1}
!2 = !{!"rustc version 1.95.0 (59807616e 2026-04-14)"}
